#!/venv/bin/python
"""Prints the markdown table of seeded changes (seeded/*/meta.json) for DESIGN.md section 6.3."""
import glob
import json
import os

HOME = os.path.dirname(os.path.dirname(os.path.abspath(__file__)))


def main():
    print('| seed | property | what the change does | needs to manifest | caught by (tier) |')
    print('|---|---|---|---|---|')
    for path in sorted(glob.glob(os.path.join(HOME, 'seeded', '*', 'meta.json'))):
        m = json.load(open(path))
        name = os.path.basename(os.path.dirname(path))
        res = m.get('check_results', {})
        caught = []
        for key, v in sorted(res.items()):
            if v['exit'] == 1:
                caught.append('%s (%s)' % tuple(key.split('/')))
        missed = [k for k, v in sorted(res.items()) if v['exit'] != 1]
        note = ''
        if m.get('note'):
            note = ' — ' + m['note']
        print('| %s | %s | %s | %s | %s%s |' % (
            name, m.get('property', ''), _one(m.get('summary', '')), _one(m.get('needs_to_manifest', '')),
            ', '.join(caught) or '**nothing**', note))


def _one(text):
    text = ' '.join(str(text).split())
    return text if len(text) < 260 else text[:257] + '...'


if __name__ == '__main__':
    main()
