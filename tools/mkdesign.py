#!/venv/bin/python
"""Assembles DESIGN.md from tools/design/*.md, inserting the table of seeded changes."""
import glob
import os
import subprocess

HOME = os.path.dirname(os.path.dirname(os.path.abspath(__file__)))
parts = [open(p).read() for p in sorted(glob.glob(os.path.join(HOME, 'tools', 'design', '*.md')))]
table = subprocess.run([os.path.join(HOME, 'tools', 'seedtable.py')], stdout=subprocess.PIPE, text=True).stdout
open(os.path.join(HOME, 'DESIGN.md'), 'w').write(''.join(parts).replace('SEEDTABLE', table))
print('DESIGN.md written')
