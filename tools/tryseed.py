#!/venv/bin/python
"""Try a seeded change against the checks.

usage: tools/tryseed.py <dir with patch.diff [+ demo.py]> [check ids ...] [--tier quick|thorough] [--all]

Applies the patch in a scratch worktree of /repo (never in /repo itself),
confirms that the 70 stable tests still pass and that the demonstration fails
with the change and passes without it, then runs the given checks (default: the
property named in meta.json) with VERIF_REPO pointing at the scratch tree and
prints which of them report a violation.  The scratch worktree is removed at
the end.
"""
import json
import os
import subprocess
import sys
import tempfile

HOME = os.path.dirname(os.path.dirname(os.path.abspath(__file__)))
TESTS = ['tests/test_pdu.py', 'tests/test_dimsemessages.py']


def sh(cmd, cwd=None, env=None, timeout=3600):
    p = subprocess.run(cmd, cwd=cwd, env=env, stdout=subprocess.PIPE, stderr=subprocess.STDOUT,
                       timeout=timeout, text=True)
    return p.returncode, p.stdout


def main():
    args = [a for a in sys.argv[1:] if not a.startswith('--')]
    tier = 'quick'
    if '--tier' in sys.argv:
        tier = sys.argv[sys.argv.index('--tier') + 1]
        args.remove(tier)
    seed_dir = os.path.abspath(args[0])
    patch = os.path.join(seed_dir, 'patch.diff')
    demo = os.path.join(seed_dir, 'demo.py')
    meta = {}
    if os.path.exists(os.path.join(seed_dir, 'meta.json')):
        meta = json.load(open(os.path.join(seed_dir, 'meta.json')))
    checks = args[1:] or [meta.get('property')]
    if '--all' in sys.argv:
        checks = ['C%02d' % i for i in range(1, 21)]
    wt = tempfile.mkdtemp(prefix='seedrun-', dir='/tmp')
    os.rmdir(wt)
    report = {'seed': seed_dir, 'checks': {}}
    try:
        rc, out = sh(['git', '-C', '/repo', 'worktree', 'add', '-q', '--detach', wt, 'HEAD'])
        assert rc == 0, out
        env = dict(os.environ, PYTHONPATH=wt, PYTHONDONTWRITEBYTECODE='1')
        if os.path.exists(demo):
            rc, out = sh(['/venv/bin/python', demo], cwd=wt, env=env, timeout=300)
            report['demo_clean_exit'] = rc
        rc, out = sh(['git', 'apply', patch], cwd=wt)
        if rc != 0:
            report['apply_failed'] = out[-400:]
            print(json.dumps(report, indent=1))
            return 2
        rc, out = sh(['/venv/bin/python', '-m', 'pytest', '-q', '-p', 'no:cacheprovider'] + TESTS, cwd=wt,
                     env=env, timeout=600)
        report['tests_pass_with_change'] = rc == 0
        report['tests_tail'] = out.strip().splitlines()[-1] if out.strip() else ''
        if os.path.exists(demo):
            rc, out = sh(['/venv/bin/python', demo], cwd=wt, env=env, timeout=300)
            report['demo_changed_exit'] = rc
            report['demo_tail'] = out.strip().splitlines()[-3:]
        for c in checks:
            if not c:
                continue
            env2 = dict(os.environ, VERIF_REPO=wt)
            rc, out = sh([os.path.join(HOME, 'check'), c, '--tier', tier], cwd=HOME, env=env2, timeout=7200)
            keys = [l.strip().split(' ')[0] for l in out.splitlines()
                    if l.startswith('  ') and not l.startswith('  counter')]
            report['checks'][c] = {'exit': rc, 'keys': keys[:12]}
    finally:
        sh(['git', '-C', '/repo', 'worktree', 'remove', '--force', wt])
    print(json.dumps(report, indent=1))
    caught = [c for c, v in report['checks'].items() if v['exit'] == 1]
    print('CAUGHT BY: %s' % (caught or 'nothing'))
    if '--keep' in sys.argv:
        # archive a confirmed seed under /verif/seeded/<name>/ (patch.diff, demo.py, meta.json)
        ok = report.get('tests_pass_with_change') and report.get('demo_clean_exit') == 0 and \
            report.get('demo_changed_exit') not in (0, None)
        if not ok:
            print('NOT KEPT: the change is not confirmed (tests / demonstration)')
            return 1
        import shutil
        dest = os.path.join(HOME, 'seeded', os.path.basename(seed_dir.rstrip('/')))
        os.makedirs(dest, exist_ok=True)
        if os.path.abspath(dest) != os.path.abspath(seed_dir):
            shutil.copy(patch, os.path.join(dest, 'patch.diff'))
            shutil.copy(demo, os.path.join(dest, 'demo.py'))
        old = {}
        if os.path.exists(os.path.join(dest, 'meta.json')):
            old = json.load(open(os.path.join(dest, 'meta.json')))
        meta = dict(old, **meta)
        meta['confirmed'] = {'tests_pass_with_change': True, 'demo_exit_clean': 0,
                             'demo_exit_with_change': report['demo_changed_exit'],
                             'how': 'tools/tryseed.py: scratch worktree of /repo HEAD, git apply, '
                                    'pytest tests/test_pdu.py tests/test_dimsemessages.py, demo.py with '
                                    'and without the change'}
        results = dict(meta.get('check_results', {}))
        for c, v in report['checks'].items():
            results['%s/%s' % (c, tier)] = {'exit': v['exit'], 'keys': v['keys'][:6]}
        meta['check_results'] = results
        meta['caught_by'] = sorted(set(k.split('/')[0] for k, v in results.items() if v['exit'] == 1))
        with open(os.path.join(dest, 'meta.json'), 'w') as f:
            json.dump(meta, f, indent=1)
        print('KEPT in %s' % dest)
    return 0


if __name__ == '__main__':
    sys.exit(main())
