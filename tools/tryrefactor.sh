#!/bin/bash
# usage: tools/tryrefactor.sh <diff file> [check ids...]
# Applies a (supposedly behaviour-preserving) change in a scratch worktree of /repo HEAD, runs the
# 70 stable tests and then the given checks (default: all twenty, quick tier) against that tree.
# Any VIOLATION / INCONCLUSIVE line is a false alarm to investigate (or the change is not
# behaviour-preserving after all).
set -u
HERE="$(cd "$(dirname "${BASH_SOURCE[0]}")/.." && pwd)"
DIFF="$(readlink -f "$1")"; shift
CHECKS="${*:-C01 C02 C03 C04 C05 C06 C07 C08 C09 C10 C11 C12 C13 C14 C15 C16 C17 C18 C19 C20}"
WT="$(mktemp -d -u /tmp/refrun-XXXXXX)"
git -C /repo worktree add -q --detach "$WT" HEAD || exit 2
trap 'git -C /repo worktree remove --force "$WT"' EXIT
if ! git -C "$WT" apply "$DIFF"; then echo "APPLY FAILED"; exit 2; fi
(cd "$WT" && PYTHONPATH="$WT" /venv/bin/python -m pytest -q -p no:cacheprovider tests/test_pdu.py tests/test_dimsemessages.py 2>&1 | tail -1)
for c in $CHECKS; do
  out="$(cd "$HERE" && VERIF_REPO="$WT" ./check "$c" --tier quick 2>&1)"
  echo "$out" | grep -E "^(HELD|VIOLATION|INCONCLUSIVE|KNOWN-FINDING)|^  [a-z]" | grep -v "  counter" | cut -c1-260 | sed "s/^/$c: /"
done
