#!/bin/bash
# usage: tools/evalbatch.sh <seed root with Cxx/_out/k dirs> <generation tag, e.g. g4> [--keep]
# stages every <root>/Cxx/_out/k as /tmp/stage-<tag>/Cxx-<tag>-k and tries it against its own property's check
root=$1; tag=$2; keep=$3
mkdir -p /tmp/stage-$tag
for d in $root/C*/_out/*; do
  [ -f $d/patch.diff ] || continue
  c=$(basename $(dirname $(dirname $d))); k=$(basename $d)
  s=/tmp/stage-$tag/$c-$tag-$k
  rm -rf $s; cp -r $d $s
  out=$(/venv/bin/python $(dirname $0)/tryseed.py $s $keep 2>&1 | grep -E "CAUGHT|demo_clean_exit|demo_changed_exit|tests_pass|apply_failed" | tr '\n' ' ')
  echo "$c-$tag-$k $out"
done
