"""C20 - the library's encoders and classifiers under concurrency.

Every association has its own provider thread, and application threads send on
their associations at the same time: PDU encoding, command-set encoding, group
length computation and status classification all run concurrently on *different*
objects.  Each of these is a function of its own argument; scratch buffers,
"last result" memos and prototypes shared between calls make them depend on what
another thread is doing.  K threads each work through their own list of distinct
inputs while the GIL changes hands at every line inside the functions under test
(vf/inject.py, zero-length sleeps) and at the smallest switch interval; every
result is compared with the one computed alone beforehand.
"""
from __future__ import annotations

import sys
import threading

from . import inject
from .common import rng

TARGETS = ['pynetdicom2.pdu.PresentationDataValueItem.encode', 'pynetdicom2.pdu.PDataTfPDU.encode',
           'pynetdicom2.pdu.PDataTfPDU.decode', 'pynetdicom2.dsutils.encode', 'pynetdicom2.dsutils.encode_element',
           'pynetdicom2.dsutils.decode', 'pynetdicom2.dimsemessages.DIMSEMessage.set_length',
           'pynetdicom2.dimsemessages.DIMSEMessage.encode', 'pynetdicom2.dimsemessages.DIMSEMessage._fragments',
           'pynetdicom2.dimsemessages.fragment', 'pynetdicom2.statuses.*', 'pynetdicom2.dsutils.*',
           'pynetdicom2.userdataitems.*', 'pynetdicom2.pdu.*']


def workloads(r, t):
    """-> list of (label, thunk) for thread t; every thunk is deterministic and touches only its own objects."""
    from pynetdicom2 import pdu as P, dimsemessages as D, dsutils, statuses
    import pydicom
    out = []
    for k in range(40):
        # P-DATA-TF PDUs with PDVs of thread-specific sizes and context ids
        pdvs = [P.PresentationDataValueItem(1 + 2 * ((t * 7 + k + j) % 100), bytes([j % 4]) + bytes(
            [(t * 31 + k + j) % 256]) * (3 + (t * 5 + k * 3 + j) % 60)) for j in range(1 + (k + t) % 3)]
        pdu = P.PDataTfPDU(pdvs)
        out.append(('pdata-encode', pdu.encode))
        raw = pdu.encode()
        out.append(('pdata-decode-encode', lambda raw=raw: P.PDataTfPDU.decode(raw).encode()))
        # association requests announcing thread-specific maxima, titles and items
        def request(t=t, k=k):
            from pynetdicom2 import userdataitems as U
            items = [P.ApplicationContextItem('1.2.840.10008.3.1.1.1'),
                     P.PresentationContextItemRQ(1 + 2 * (k % 100), P.AbstractSyntaxSubItem('1.2.840.10008.1.%d' % (t + 1)),
                                                 [P.TransferSyntaxSubItem('1.2.840.10008.1.2')]),
                     P.UserInformationItem([U.MaximumLengthSubItem(1024 * (t + 1) + k),
                                            U.ImplementationClassUIDSubItem('1.2.3.%d' % t),
                                            U.ImplementationVersionNameSubItem('V%d_%d' % (t, k)),
                                            U.UserIdentityNegotiationSubItem('user%d' % t, 'pw' * (k % 5 + 1))])]
            return P.AAssociateRqPDU(called_ae_title='CALLED%d' % t, calling_ae_title='CALLING%d' % k,
                                     variable_items=items).encode()
        out.append(('associate-encode', request))
        rq_raw = request()
        out.append(('associate-decode-encode', lambda raw=rq_raw: P.AAssociateRqPDU.decode(raw).encode()))

        # command sets of thread-specific length
        def message(t=t, k=k):
            msg = D.CStoreRQMessage()
            msg.message_id = (t * 1000 + k) % 65536
            msg.priority = 0
            msg.sop_class_uid = '1.2.840.10008.5.1.4.1.1.%d' % (t + 1)
            msg.affected_sop_instance_uid = '1.2.3.' + '9' * (1 + (t * 3 + k) % 40)
            msg.data_set = bytes([t]) * (10 + k)
            msg.set_length()
            return b''.join(p.encode() for p in msg.encode(1 + 2 * t, 64 + t))
        out.append(('message-encode', message))

        def dataset(t=t, k=k):
            ds = pydicom.Dataset()
            ds.PatientName = 'T%d^%d' % (t, k)
            ds.PatientID = 'x' * (1 + (t + k) % 30)
            return dsutils.encode(ds, k % 2 == 0, True)
        out.append(('dataset-encode', dataset))
        # a burst of look-ups over a handful of (command, code) pairs that every thread uses
        def burst(t=t, k=k):
            pairs = [(0xFF00, D.CFindRSPMessage), (0x0000, D.CFindRSPMessage), (0xB000, D.CStoreRSPMessage),
                     (0xFF00, D.CStoreRSPMessage), (0x0000, None), (0xFF01, D.CFindRSPMessage)]
            out_ = []
            for j in range(24):
                code_, cmd_ = pairs[(t + k + j * (1 + t % 3)) % len(pairs)]
                s_ = statuses.Status(code_, cmd_)
                out_.append((code_, s_.status_type, s_.is_pending, s_.is_success))
            return out_
        out.append(('status-burst', burst))
        code = [0x0000, 0xFF00, 0xFF01, 0xB000, 0xC000, 0xA700, 0xFE00, 0x0110][(t + k) % 8]
        cmd = [D.CFindRSPMessage, D.CStoreRSPMessage, D.CGetRSPMessage, None][(t * 3 + k) % 4]
        out.append(('status', lambda code=code, cmd=cmd: (lambda s: (int(s), s.status_type, s.is_pending,
                                                                      s.is_success, s.is_failure, s.is_warning))(
            statuses.Status(code, cmd))))
    r.shuffle(out)
    return out


def run(res, seed, nthreads=6, rounds=3):
    res.evaluations += 1
    case = {'pure': True, 'seed': seed}
    plans = [workloads(rng(seed, 'c20-pure', t), t) for t in range(nthreads)]
    expected = [[thunk() for _, thunk in plan] for plan in plans]       # alone, before any concurrency
    wrong = []
    errors = []
    stats = {}
    old = sys.getswitchinterval()
    try:
        sys.setswitchinterval(1e-6)
        with inject.line_delays(TARGETS, seed=seed, delays=(0.0,), stats=stats):
            for _ in range(rounds):
                start = threading.Barrier(nthreads)

                def worker(t):
                    try:
                        start.wait(10)
                        for k, (label, thunk) in enumerate(plans[t]):
                            got = thunk()
                            if got != expected[t][k]:
                                wrong.append((label, t, k))
                    except Exception as exc:
                        errors.append('%s: %s' % (type(exc).__name__, exc))
                threads = [threading.Thread(target=worker, args=(t,), daemon=True) for t in range(nthreads)]
                for th in threads:
                    th.start()
                for th in threads:
                    th.join(120)
    finally:
        sys.setswitchinterval(old)
    res.count('oracle.pure-functions-under-concurrency', sum(len(p) for p in plans) * rounds)
    res.count('inject.lines-delayed', stats.get('hits', 0))
    res.distinct.add('pure|%d|%d' % (nthreads, len(plans[0])))
    res.sample({'case': case, 'threads': nthreads, 'calls': sum(len(p) for p in plans) * rounds,
                'functions_instrumented': stats.get('functions', [])}, limit=1)
    if errors:
        res.violation('encoder-raises-under-concurrency', 'C20.isolation',
                      '%d threads encoding their own objects: %s' % (nthreads, errors[0]), case)
    if wrong:
        kinds = sorted(set(w[0] for w in wrong))
        res.violation('result-depends-on-other-threads:' + kinds[0], 'C20.isolation',
                      '%d threads working on their own objects: %d results differ from the result computed alone '
                      '(kinds %r, first: thread %d call %d)' % (nthreads, len(wrong), kinds, wrong[0][1], wrong[0][2]),
                      case)
