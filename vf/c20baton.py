"""C20 (b) - deterministic non-interference of several provider loops.

K conversations of the corpus run on K real providers of one process, stepped
in a seeded interleaving (vf.baton); every provider's observations - wire bytes,
indications with full content, final state - must equal those of the same
conversation run alone.  Peer streams are delivered in small segments so that
the baton changes hands in the middle of messages.
"""
from __future__ import annotations

from . import baton, c03, convo, simnet
from .common import rng


def observe_alone(role, script, recv):
    sim = simnet.Sim(role, script, max_pdu_length=recv)
    sim.run()
    return describe(sim)


def describe(sim):
    return {'wire': b''.join(sim.wire_raw), 'indications': [c03.describe_msg(i) for i in sim.indication_objs],
            'state': sim.state(), 'closed': sim.all_closed(), 'outcome': sim.outcome, 'error': sim.error}


def segmented_script(r, role, steps):
    cuts = {}
    for idx, blob, bounds in convo.peer_stream(steps):
        if len(blob) > 1:
            n = r.choice([2, 4, 8, 16])
            cuts[idx] = sorted(set(r.randrange(1, len(blob)) for _ in range(n)))
    return cuts


def timed_conversations():
    """Conversations whose ending depends on this provider's own ARTIM timer (the peer falls silent
    and only the time-out closes the connection)."""
    from . import fixtures as F
    P = F.PEER
    return {
        'T1-reject-then-silence': ('acceptor', [('peer', [P['pRQ']]), ('user', 'uRJ'), ('time', 11.0)]),
        'T2-silent-requestor': ('acceptor', [('time', 6.0), ('time', 6.0)]),
        'T3-garbage-then-silence': ('acceptor', [('peer', [P['pRQ']]), ('user', 'uAC'), ('peer', [P['pUNK']]),
                                                 ('time', 6.0), ('time', 6.0)]),
        'T4-release-then-silence': ('acceptor', [('peer', [P['pRQ']]), ('user', 'uAC'), ('peer', [P['pRELRQ']]),
                                                 ('user', 'uRELRP'), ('time', 11.0)]),
    }


def run_round(res, case):
    seed, k = case['seed'], case['round']
    r = rng(seed, 'c20-baton', k)
    corpus = dict(convo.corpus())
    corpus.update(timed_conversations())
    names = sorted(corpus)
    nsims = r.choice([2, 2, 3, 4])
    picks = [r.choice(['A2-store', 'R2-find', 'A7-pipelined', 'A1-echo', 'A6-collision', 'R6-collision',
                       'A3-peer-abort', 'A8-local-abort'] if r.random() < 0.8 else names)
             for _ in range(nsims)]
    if k % 3 == 0:
        # every third round: one provider that waits for its own time-out among the busy ones
        picks[0] = r.choice(sorted(timed_conversations()))
        res.count('baton.rounds-with-a-waiting-provider')
    recv = r.choice([65536, 16, 7])
    res.evaluations += 1
    plans = []
    for name in picks:
        role, steps = corpus[name]
        cuts = segmented_script(r, role, steps)
        plans.append((name, role, steps, cuts))
    # each conversation alone
    alone = []
    for name, role, steps, cuts in plans:
        alone.append(observe_alone(role, convo.build_script(role, steps, cuts, 'pdu'), recv))
    # all of them interleaved
    group = baton.Group(seed * 1000003 + k, switch_probability=r.choice([0.3, 0.6, 0.9]))
    for name, role, steps, cuts in plans:
        group.add(role, convo.build_script(role, steps, cuts, 'pdu'), max_pdu_length=recv)
    hung = group.run()
    res.count('oracle.non-interference')
    res.count('baton.switches', group.switches)
    res.distinct.add('baton|%s|%d|%s' % ('+'.join(picks), recv, ''.join(map(str, group.schedule))[:200]))
    res.sample({'case': case, 'conversations': picks, 'recv': recv, 'switches': group.switches,
                'schedule_prefix': group.schedule[:40]}, limit=3)
    where = 'baton round %d: %s (recv %d, %d switches)' % (k, '+'.join(picks), recv, group.switches)
    if hung:
        res.inconclusive.append('%s: providers %r did not finish' % (where, hung))
        return
    for i, (name, role, steps, cuts) in enumerate(plans):
        got = describe(group.sims[i])
        want = alone[i]
        for channel in ('outcome', 'indications', 'wire', 'state', 'closed'):
            if got[channel] != want[channel]:
                a, b = got[channel], want[channel]
                if channel == 'wire':
                    a, b = '%d bytes' % len(a), '%d bytes' % len(b)
                elif channel == 'indications':
                    a, b = [x[:3] for x in a], [x[:3] for x in b]
                res.violation('interleaving-changes-' + channel, 'C20.non-interference',
                              '%s: provider %d (%s) interleaved with the others: %s = %r, alone %r%s' % (
                                  where, i, name, channel, a, b,
                                  (' error=%s' % got['error']) if got['error'] else ''), case)
                break
