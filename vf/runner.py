"""./check front end: shards a property's workload over sub-processes, merges
what the monitors observed, classifies reports against KNOWN_FINDINGS.txt and
writes evidence/<ID>.json.

Exit status: 0 held on everything observed (KNOWN-FINDING lines allowed);
1 + "VIOLATION property=<id> replay=<path>" for anything not listed;
2 + "INCONCLUSIVE property=<id> <reason>" when a deciding monitor was not
reached (never folded into the other two).
"""
from __future__ import annotations

import argparse
import importlib
import json
import os
import subprocess
import sys
import tempfile
import time

from . import common
from .common import Result

PROPS = ['C%02d' % i for i in range(1, 21)]


def load(prop):
    return importlib.import_module('vf.%s' % prop.lower())


def known_findings():
    known, fixed = {}, []
    path = os.path.join(common.HOME, 'KNOWN_FINDINGS.txt')
    if not os.path.exists(path):
        return known, fixed
    for line in open(path):
        line = line.strip()
        if not line or line.startswith('#'):
            continue
        kind, _, rest = line.partition(':')
        fields = rest.split()
        prop = next((f.split('=', 1)[1] for f in fields if f.startswith('property=')), None)
        if kind == 'known':
            key = next((f.split('=', 1)[1] for f in fields if f.startswith('key=')), None)
            text = ' '.join(f for f in fields if not f.startswith(('property=', 'key=')))
            if prop and key:
                known[(prop, key)] = text
        elif kind == 'fixed':
            fixed.append(rest.strip())
    return known, fixed


def validate_evidence(evidence):
    try:
        import jsonschema
    except ImportError:
        return None
    try:
        schema = json.load(open(os.path.join(common.HOME, 'schemas', 'EVIDENCE.schema.json')))
        jsonschema.validate(json.loads(json.dumps(evidence, default=common._json_default)), schema)
    except jsonschema.ValidationError as exc:
        return common.short(exc.message, 300)
    except Exception:
        return None
    return None


def worker(args):
    mod = load(args.prop)
    spec = json.load(open(args.spec))
    ok, path = common.assert_repo_import()
    res = Result()
    if not ok:
        res.inconclusive.append('pynetdicom2 imported from %s, not from %s' % (path, common.REPO))
    else:
        if isinstance(spec, dict) and spec.get('debug_logging'):
            # an application that runs with logging turned up: every logger's DEBUG messages are
            # built, formatted (arguments converted to text) and written to a sink
            import logging
            sink = logging.StreamHandler(open(os.devnull, 'w'))
            sink.setFormatter(logging.Formatter('%(asctime)s %(name)s %(levelname)s %(message)s'))
            logging.basicConfig(level=logging.DEBUG, handlers=[sink], force=True)
        try:
            res = mod.run_shard(spec, args.tier, args.seed)
            if isinstance(spec, dict) and spec.get('optimize'):
                res.count('sim.shards-in-optimized-interpreter' if not __debug__ else
                          'sim.optimize-flag-not-in-effect')
        except Exception as exc:  # harness failure is never a verdict on the library
            import traceback
            res.inconclusive.append('harness error in shard %r: %s' % (
                spec.get('name', spec), traceback.format_exc()[-1500:]))
    common.jdump(res.to_json(), args.out)
    # a library change under test may leave non-daemon provider threads behind: they must not
    # keep the shard (and with it the verdict it has just written) from being collected
    sys.stdout.flush()
    sys.stderr.flush()
    os._exit(0)


def run_shards(prop, mod, tier, seed, specs):
    workdir = tempfile.mkdtemp(prefix='vf-%s-' % prop, dir=os.path.join(common.HOME, '.work'))
    timeout = getattr(mod, 'SHARD_TIMEOUT', {'quick': 600, 'thorough': 5400})[tier]
    maxpar = min(int(os.environ.get('VERIF_JOBS', '16')), getattr(mod, 'MAX_PARALLEL', 16))
    pending = list(enumerate(specs))
    running = []
    total = Result()
    env = dict(os.environ)

    def finish(i, proc, out, started, errpath):
        res = None
        if os.path.exists(out):
            try:
                res = Result.from_json(json.load(open(out)))
            except Exception as exc:
                res = None
        if res is None:
            res = Result()
            tail = ''
            try:
                tail = open(errpath).read()[-800:]
            except OSError:
                pass
            res.inconclusive.append('shard %d produced no result (exit %s): %s' % (
                i, proc.returncode, tail))
        total.merge(res)

    try:
        while pending or running:
            while pending and len(running) < maxpar:
                i, spec = pending.pop(0)
                sp = os.path.join(workdir, 'spec%d.json' % i)
                out = os.path.join(workdir, 'out%d.json' % i)
                err = os.path.join(workdir, 'err%d.txt' % i)
                common.jdump(spec, sp)
                # spec['optimize']: the application runs its interpreter with -O (assert statements and
                # `if __debug__` blocks are compiled away)
                flags = ['-O'] if isinstance(spec, dict) and spec.get('optimize') else []
                proc = subprocess.Popen(
                    [sys.executable] + flags + ['-m', 'vf.runner', prop, '--worker', '--spec', sp,
                     '--out', out, '--tier', tier, '--seed', str(seed)],
                    env=env, cwd=common.HOME, stdout=open(err, 'w'), stderr=subprocess.STDOUT)
                running.append((i, proc, out, time.time(), err))
            still = []
            for item in running:
                i, proc, out, started, err = item
                if proc.poll() is not None:
                    finish(*item)
                elif time.time() - started > timeout:
                    proc.kill()
                    proc.wait()
                    if os.path.exists(out):
                        finish(*item)          # it had finished its work and hung on exit
                    else:
                        res = Result()
                        res.inconclusive.append('shard %d exceeded the %ds watchdog' % (i, timeout))
                        total.merge(res)
                else:
                    still.append(item)
            running = still
            if running:
                time.sleep(0.02)
    finally:
        for item in running:
            item[1].kill()
        import shutil
        shutil.rmtree(workdir, ignore_errors=True)
    return total


def report(prop, mod, tier, seed, total, wall, write_evidence=True):
    known, _fixed = known_findings()
    unlisted = []
    listed = {}
    for v in total.violations:
        if (prop, v['key']) in known:
            listed.setdefault(v['key'], v)
        else:
            unlisted.append(v)
    # counters may show more violations than were kept as witnesses
    for name, n in total.counters.items():
        if name.startswith('violations.'):
            key = name[len('violations.'):]
            if (prop, key) in known and key not in listed:
                listed[key] = {'key': key, 'message': '(witness not kept)', 'case': None}

    required = getattr(mod, 'REQUIRED', [])
    for name in required:
        if total.counters.get(name, 0) <= 0:
            total.inconclusive.append('deciding monitor %s was never reached' % name)
    if total.evaluations <= 0:
        total.inconclusive.append('no case was evaluated')

    level = getattr(mod, 'LEVEL', 'exploration')
    coverage = {
        'evaluations': int(total.evaluations),
        'distinct_nontrivial': len(total.distinct),
        'rule': getattr(mod, 'RULE', ''),
        'samples': total.samples or [],
        'counters': dict(sorted(total.counters.items())),
    }
    if hasattr(mod, 'exhaustive'):
        coverage['exhaustive'] = bool(mod.exhaustive(tier))
    coverage.update(total.notes)
    evidence = {
        'property_id': prop, 'tier': tier, 'seed': int(seed), 'level': level,
        'coverage': coverage,
        'assumptions': list(getattr(mod, 'ASSUMPTIONS', [])),
        'wall_s': round(wall, 2),
        'violations': len(set(v['key'] for v in unlisted)),
        'known_findings': sorted(listed),
        'inconclusive': total.inconclusive[:20],
        'repo': common.REPO,
        'pythonhashseed': os.environ.get('PYTHONHASHSEED'),
    }
    if write_evidence:
        # evidence/ describes runs against the repository itself; runs against a
        # scratch tree (VERIF_REPO=..., used to try seeded changes) go elsewhere
        edir = os.path.join(common.HOME, 'evidence') if os.path.realpath(common.REPO) == '/repo' \
            else os.path.join(common.HOME, '.work', 'alt-evidence')
        os.makedirs(edir, exist_ok=True)
        common.jdump(evidence, os.path.join(edir, '%s.json' % prop))
        problem = validate_evidence(evidence)
        if problem:
            total.inconclusive.append('evidence file does not validate: %s' % problem)

    print('%s tier=%s seed=%s evaluations=%d distinct=%d wall=%.1fs' % (
        prop, tier, seed, total.evaluations, len(total.distinct), wall))
    for name in sorted(total.counters):
        if not name.startswith('violations.'):
            print('  counter %-44s %d' % (name, total.counters[name]))
    for key in sorted(listed):
        print('KNOWN-FINDING: property=%s key=%s %s' % (prop, key, known[(prop, key)]))
    status = 0
    if unlisted:
        status = 1
        seen = {}
        for v in unlisted:
            seen.setdefault(v['key'], []).append(v)
        rdir = os.path.join(common.HOME, 'replays', prop)
        os.makedirs(rdir, exist_ok=True)
        for key, vs in sorted(seen.items()):
            v = vs[0]
            path = os.path.join(rdir, '%s-%s.json' % (key.replace('/', '_').replace(':', '_'),
                                                      common.sig(v['case'])))
            common.jdump({'property': prop, 'tier': tier, 'seed': seed,
                          'pythonhashseed': os.environ.get('PYTHONHASHSEED'),
                          'mechanism_key': key, 'monitor': v.get('monitor'),
                          'message': v['message'], 'case': v['case'],
                          'witnesses_kept': len(vs)}, path)
            print('  %s [%s] %s' % (key, v.get('monitor'), common.short(v['message'], 600)))
            print('VIOLATION property=%s replay=%s' % (prop, path))
    elif total.inconclusive:
        status = 2
        for reason in total.inconclusive[:5]:
            print('INCONCLUSIVE property=%s %s' % (prop, common.short(reason, 1200)))
    else:
        print('HELD property=%s on everything observed' % prop)
    sys.stdout.flush()
    return status


def main(argv=None):
    ap = argparse.ArgumentParser()
    ap.add_argument('prop')
    ap.add_argument('--tier', default=os.environ.get('VERIF_TIER', 'quick'),
                    choices=['quick', 'thorough'])
    ap.add_argument('--seed', type=int, default=int(os.environ.get('VERIF_SEED', '0') or 0))
    ap.add_argument('--replay')
    ap.add_argument('--worker', action='store_true')
    ap.add_argument('--spec')
    ap.add_argument('--out')
    ap.add_argument('--inline', action='store_true', help='run shards in this process (debug)')
    args = ap.parse_args(argv)
    args.prop = args.prop.upper()
    if args.prop not in PROPS:
        ap.error('unknown property %s' % args.prop)
    if args.worker:
        return worker(args)

    os.makedirs(os.path.join(common.HOME, '.work'), exist_ok=True)
    mod = load(args.prop)
    t0 = time.time()
    ok, path = common.assert_repo_import()
    if not ok:
        total = Result()
        total.inconclusive.append('pynetdicom2 imported from %s, not from %s' % (path, common.REPO))
        return report(args.prop, mod, args.tier, args.seed, total, time.time() - t0)
    if args.replay:
        rec = json.load(open(args.replay))
        total = mod.replay(rec['case'])
        total.evaluations = max(total.evaluations, 1)
        # a replay decides one case; required-counter rules do not apply
        class _M(object):
            pass
        shim = _M()
        for name in ('LEVEL', 'RULE', 'ASSUMPTIONS'):
            if hasattr(mod, name):
                setattr(shim, name, getattr(mod, name))
        return report(args.prop, shim, rec.get('tier', 'quick'), rec.get('seed', 0), total,
                      time.time() - t0, write_evidence=False)
    specs = mod.plan(args.tier, args.seed)
    # the first OPTIMIZED_SAMPLE shards of the plan once more in an interpreter started with -O
    sample = getattr(mod, 'OPTIMIZED_SAMPLE', 0)
    specs = specs + [dict(s, optimize=True) for s in specs[:sample] if isinstance(s, dict)]
    if args.inline:
        total = Result()
        for spec in specs:
            total.merge(mod.run_shard(spec, args.tier, args.seed))
    else:
        total = run_shards(args.prop, mod, args.tier, args.seed, specs)
    return report(args.prop, mod, args.tier, args.seed, total, time.time() - t0)


if __name__ == '__main__':
    code = main()
    sys.stdout.flush()
    sys.stderr.flush()
    os._exit(code or 0)
