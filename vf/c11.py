"""C11 - requester: well-formed proposal, accepted contexts and service lookup
agree.

The real ``AssociationRequester.request`` runs against the stub provider (E4)
for seeded application-entity configurations (sequences of add_scu / add_scp
with class lists of many sizes); the A-ASSOCIATE-RQ it hands to the provider is
read with the reference parser.  The scripted reply accepts / rejects the
proposed contexts in every pattern (small proposals exhaustively) and the
resulting tables and ``get_scu`` lookups are compared with plain set
arithmetic.
"""
from __future__ import annotations

import itertools

from . import fixtures as F, libmap, refcodec as R, stubdul
from .common import Result, rng, chunked

LEVEL = 'exploration'
ENGINE = 'stubdul+refcodec'
TECHNIQUE = ('runtime monitor on the real AssociationRequester (stub provider): request PDU parsed by the reference '
             'codec, scripted replies in every accept/reject pattern, lookup tables judged by set arithmetic')
LEVEL_TEXT = ('all accept/reject/transfer-syntax patterns for proposals of up to 4 contexts are enumerated, larger '
              'configurations (up to 140 classes) and replies are seeded samples; exploration')
LEVEL_NOTE = ('a SOP class registered only as SCP has no SCU service to hand out, so the "if and only if" of the lookup '
              'is checked for classes added with add_scu')
RULE = ('case = (sequence of add_scu/add_scp calls, reply pattern); distinct = (class-list sizes, overlap, reply '
        'pattern); non-trivial = at least one class configured')
ASSUMPTIONS = ['reply PDUs are built by the reference encoder and decoded by the library, as the provider would']
REQUIRED = ['oracle.request-wellformed', 'oracle.usable-contexts', 'oracle.lookup', 'oracle.reject-reply',
            'oracle.reply-in-another-order', 'oracle.last-context-ids', 'oracle.user-items-of-this-request',
            'oracle.large-reply-over-transport', 'sim.transfer-syntaxes-per-call']

TS4 = ['1.2.840.10008.1.2.1', '1.2.840.10008.1.2', '1.2.840.10008.1.2.2', '1.2.840.10008.1.2.4.50']
POOL = ['1.2.840.10008.5.1.4.1.1.%d' % i for i in range(1, 200)]
TS3 = [F.EXPLICIT, F.IMPLICIT, b'1.2.840.10008.1.2.2']
NRANDOM = {'quick': 1500, 'thorough': 200000}


OPTIMIZED_SAMPLE = 1     # the first shard once more under python -O (vf/runner.py)


def exhaustive(tier):
    return False


def plan(tier, seed):
    specs = [{'name': 'patterns', 'n': n} for n in (0, 1, 2, 3, 4)]
    specs.append({'name': 'boundary'})
    specs.append({'name': 'big-reply'})
    for part in chunked(range(NRANDOM[tier]), 11):
        if part:
            specs.append({'name': 'random', 'lo': part[0], 'hi': part[-1] + 1})
    return specs


def run_shard(spec, tier, seed):
    res = Result()
    if spec['name'] == 'big-reply':
        from . import c11big
        c11big.run(res)
        return res
    if spec['name'] == 'patterns':
        n = spec['n']
        for results in itertools.product(range(5), repeat=n):
            for rot in range(3):
                run_case(res, {'calls': [['scu', n, 0]], 'results': list(results), 'rot': rot,
                               'ae': 'client', 'seed': seed,
                               'order': ('proposal', 'reversed', 'shuffled')[rot],
                               'ts': (0b0111, 0b0001, 0b1010)[(rot + sum(results)) % 3]})
        for results in itertools.product((0, 1, 3), repeat=n):
            run_case(res, {'calls': [['scp', max(n - 1, 0), 0], ['scu', 1 if n else 0, 50]],
                           'results': list(results), 'rot': 1, 'ae': 'full', 'seed': seed})
    elif spec['name'] == 'boundary':
        # configurations that use the last odd context ids (255 = the 128th context), in one call
        # and spread over several
        for sizes in ([126], [127], [128], [100, 28], [127, 1], [64, 63, 1], [1, 127], [125, 2], [40, 40, 40, 8]):
            for ae_kind in ('client', 'full'):
                for order in ('proposal', 'reversed'):
                    calls, start = [], 0
                    for k, size in enumerate(sizes):
                        calls.append(['scp' if (ae_kind == 'full' and k == 1) else 'scu', size, start])
                        start += size
                    run_case(res, {'calls': calls, 'results': [0, 0, 3, 0, 1] * 26, 'rot': 1, 'ae': ae_kind,
                                   'seed': seed, 'order': order, 'ts': 0b0111})
                    res.count('oracle.last-context-ids')
    else:
        for i in range(spec['lo'], spec['hi']):
            r = rng(seed, 'c11', i)
            ncalls = r.choice([1, 1, 2, 3, 5])
            calls = []
            start = 0
            overlap = r.random() < 0.15
            for _ in range(ncalls):
                size = r.choice([0, 1, 2, 5, 17, 40]) if r.random() < 0.7 else r.randrange(0, 41)
                kind = r.choice(['scu', 'scu', 'scp', 'ctx'])
                calls.append([kind, size, start])
                start += size if not overlap else max(size - r.randrange(0, 3), 0)
            if r.random() < 0.1:
                calls.append(['scu', r.choice([120, 127, 128, 129, 140]) - min(start, 100), start])
            total = sum(c[1] for c in calls)
            kind = r.random()
            if kind < 0.1:
                reply = {'rj': [r.choice([1, 2]), r.choice([1, 2, 3]), r.randrange(0, 8)]}
            elif kind < 0.2:
                reply = {'hostile': r.choice(['unknown-id', 'repeated-id'])}
            else:
                reply = {}
            case = {'calls': calls, 'results': [r.choice([0, 0, 0, 1, 2, 3, 4]) for _ in range(total)],
                    'rot': r.randrange(3), 'ae': r.choice(['client', 'full']), 'seed': seed,
                    'max': r.choice([16384, 65536, 1024, 7]),
                    # the entity's transfer syntaxes (subset of four) and the order of the reply's items
                    'ts': r.choice([0b0111, 0b0111, r.randrange(1, 16)]),
                    'order': r.choice(['proposal', 'proposal', 'reversed', 'shuffled']),
                    'max_late': r.random() < 0.25, 'user_data': r.random() < 0.25,
                    'retune_ts': r.random() < 0.25, 'late_ctx': r.random() < 0.2}
            case.update(reply)
            run_case(res, case)
    return res


def replay(case):
    res = Result()
    if case.get('big'):
        from . import c11big
        c11big.run(res, replay_case=case)
        return res
    run_case(res, case)
    return res


def service(kind, classes):
    def fn(asce, ctx, *a):
        return ('called', kind, ctx)
    fn.sop_classes = list(classes)
    return fn


TS_OF = {}      # (entity, class) -> transfer syntaxes the entity supported when the class was configured


def run_case(res, case):
    from pynetdicom2 import applicationentity, asceprovider, exceptions, pdu as P
    TS_OF.clear()
    res.evaluations += 1
    if case.get('retune_ts'):
        res.count('sim.transfer-syntaxes-per-call')
    calls = case['calls']
    full = case['ae'] == 'full' or any(c[0] == 'scp' for c in calls)
    max_len = case.get('max', 16384)
    configured = []        # (kind, class) in configuration order
    local_title, remote_title = 'LOCAL-AE', 'REMOTE-AE'
    sizes = [c[1] for c in calls]
    if sum(sizes):
        res.distinct.add('%s|%s|%s|%s' % (calls, case['results'][:12], case['rot'],
                                          case.get('rj') or case.get('hostile')))
    mask = case.get('ts', 0b0111)
    tss = [t for k, t in enumerate(TS4) if mask >> k & 1]
    late = bool(case.get('max_late'))
    first_max = 4096 if late else max_len
    with stubdul.stubbed() as Stub:
        by_class_attribute = (mask + len(calls)) % 4 == 0
        if by_class_attribute:
            # the application's own entity class states its transfer syntaxes in the documented class
            # attribute `default_ts` and passes none to the constructor
            res.count('sim.transfer-syntaxes-from-class-attribute')
            base = applicationentity.AE if full else applicationentity.ClientAE
            Entity = type('SiteEntity', (base,), {'default_ts': list(tss)})
            ae = Entity(local_title, 0, bind_and_activate=False, max_pdu_length=first_max) if full else \
                Entity(local_title, max_pdu_length=first_max)
        elif full:
            ae = applicationentity.AE(local_title, 0, supported_ts=tss, bind_and_activate=False,
                                      max_pdu_length=first_max)
        else:
            ae = applicationentity.ClientAE(local_title, supported_ts=tss, max_pdu_length=first_max)
        if sorted(str(t) for t in ae.supported_ts) != sorted(str(t) for t in tss):
            # (the request oracle below takes the entity's own attribute as what was configured)
            res.violation('configured-transfer-syntaxes-ignored', 'C11.request',
                          'entity configured with transfer syntaxes %r (%s) supports %r' % (
                              [str(t) for t in tss], 'class attribute default_ts' if by_class_attribute
                              else 'constructor argument', sorted(str(t) for t in ae.supported_ts)), case)
            if full:
                ae.server_close()
            return
        if late:
            ae.max_pdu_length = max_len      # configured after construction (public attribute)
        try:
            for nth, (kind, size, start) in enumerate(calls):
                classes = POOL[start:start + size]
                if case.get('retune_ts') and nth:
                    # the classes of this call are to be proposed with another set of transfer syntaxes
                    ae.supported_ts = frozenset(TS4[(nth + k) % 4] for k in range(1 + nth % 3))
                for c in classes:
                    TS_OF.setdefault((id(ae), c), []).append(sorted(str(t) for t in ae.supported_ts))
                if nth and (mask + nth) % 3 == 0 and ae.context_def_list:
                    # the application takes its first context out of the (public) table and puts it
                    # back, e.g. after looking at it: same entry, now last in the dict's order
                    low = min(ae.context_def_list)
                    ae.context_def_list[low] = ae.context_def_list.pop(low)
                    res.count('sim.context-table-reordered')
                try:
                    if kind == 'ctx':
                        # the documented low-level call: contexts without a service of this entity
                        ae.update_context_def_list(classes)
                    elif kind == 'scp' and full:
                        ae.add_scp(service('scp', classes))
                    else:
                        ae.add_scu(service('scu', classes), classes if classes else None) \
                            if classes else ae.add_scu(service('scu', []), [])
                except Exception as exc:
                    # refusing a configuration that needs more than the 128 odd ids is a legitimate
                    # answer to it; refusing one that fits is not
                    total = len(set(c for _, c in configured) | set(classes))
                    if len(configured) + len(classes) <= 128:
                        res.count('oracle.request-wellformed')
                        res.violation('configuration-refused', 'C11.request',
                                      'config %s: adding %d classes to %d configured ones (%d distinct in all) '
                                      'raised %s: %s' % (calls, len(classes), len(configured), total,
                                                         type(exc).__name__, exc), case)
                    return
                configured += [(kind if (kind == 'ctx' or (kind == 'scp' and full)) else 'scu', c)
                               for c in classes]
            judge(res, case, ae, configured, Stub, max_len, local_title, remote_title)
        finally:
            if full:
                ae.server_close()


def judge(res, case, ae, configured, Stub, max_len, local_title, remote_title):
    from pynetdicom2 import asceprovider, exceptions, pdu as P
    if case.get('late_ctx') and len(configured) + 3 <= 128:
        # the entity has already requested an association once; further contexts are then added
        # through the documented low-level call (as a C-GET user does for its storage contexts)
        Stub.preload = [lambda stub: P.AAssociateRjPDU(1, 1, 1)]
        try:
            with ae.request_association({'aet': remote_title, 'address': 'peer.example', 'port': 11112}):
                pass
        except exceptions.NetDICOMError:
            pass
        late = [c for c in POOL[190:193] if c not in [x for _, x in configured]]
        ae.update_context_def_list(late)
        for c in late:
            TS_OF.setdefault((id(ae), c), []).append(sorted(str(t) for t in ae.supported_ts))
        configured = configured + [('ctx', c) for c in late]
        res.count('sim.contexts-added-after-first-request')
    classes = [c for _, c in configured]
    distinct_classes = list(dict.fromkeys(classes))
    where = 'config %s (%d classes, %d distinct)' % (case['calls'], len(classes), len(distinct_classes))
    remote = {'aet': remote_title, 'address': 'peer.example', 'port': 11112}
    captured = {}

    def reply(stub):
        """Scripted receive(): build the reply from the request just sent."""
        rqs = [p for p in stub.sent_pdus() if getattr(p, 'pdu_type', None) == 1]
        tree = R.parse_pdu(rqs[-1].encode())
        captured['rq'] = tree
        proposed = [i for i in tree['items'] if i['type'] == 0x20]
        if 'rj' in case:
            return P.AAssociateRjPDU(*case['rj'])
        answers = []
        plan = {}
        for k, item in enumerate(proposed):
            result = case['results'][k] if k < len(case['results']) else 0
            tss = [t['name'] for t in item['ts']]
            ts = tss[(k + case['rot']) % len(tss)] if tss else b''
            answers.append((item['id'], result, ts if result == 0 else b''))
            plan[item['id']] = (result, ts, item['abstract']['name'])
        if case.get('hostile') == 'unknown-id':
            free = [i for i in range(1, 256, 2) if i not in plan]
            if free:
                answers.append((free[0], 0, F.IMPLICIT))
        elif case.get('hostile') == 'repeated-id' and answers:
            answers.append(answers[0])
        # the standard prescribes no order for the result items
        if case.get('order') == 'reversed':
            answers.reverse()
        elif case.get('order') == 'shuffled':
            rng(case.get('seed', 0), 'c11-order', len(answers), case['rot']).shuffle(answers)
        if case.get('order', 'proposal') != 'proposal' and len(answers) > 1:
            captured['reordered'] = True
        captured['plan'] = plan
        ac = F.assoc_ac_tree(contexts=answers, max_len=32768, called=remote_title.encode(),
                             calling=local_title.encode())
        return P.AAssociateAcPDU.decode(R.build_pdu(ac))

    custom = []
    if case.get('user_data'):
        # the caller's own user-information items and credentials; the same remote description is
        # used for an earlier association (other user) first
        from pynetdicom2 import userdataitems as U
        custom = [U.SOPClassExtendedNegotiationSubItem(POOL[0], b'\x01\x02'),
                  U.AsynchronousOperationsWindowSubItem(1, 1)]
        shared_list = list(custom)
        earlier = dict(remote, user_data=shared_list, username='first-user', password='first-secret')
        Stub.preload = [lambda stub: P.AAssociateRjPDU(1, 1, 1)]
        try:
            with ae.request_association(earlier):
                pass
        except exceptions.NetDICOMError:
            pass
        remote = dict(earlier, username='second-user', password='second-secret')
        captured.clear()
    Stub.preload = [reply]
    error = None
    asce = None
    try:
        # the documented way to request an association
        asce = ae.request_association(remote).__enter__()
    except exceptions.AssociationRejectedError as exc:
        error = exc
    except Exception as exc:
        error = exc
    stub = Stub.instances[0] if Stub.instances else None
    # ---------------- the request
    res.count('oracle.request-wellformed')
    tree = captured.get('rq')
    if tree is None:
        # the request could not even be encoded by the provider
        key = 'request-not-produced'
        if len(classes) > 128:
            key = 'more-than-128-classes'
        res.violation(key, 'C11.request', '%s: no A-ASSOCIATE-RQ reached the provider: %s: %s' % (
            where, type(error).__name__, error), case)
        return
    res.sample({'case': {k: v for k, v in case.items() if k != 'results'},
                'proposed_ids': [i['id'] for i in tree['items'] if i['type'] == 0x20][:20]}, limit=4)
    if libmap.strip_title(tree['called']) != remote_title.encode() or \
            libmap.strip_title(tree['calling']) != local_title.encode():
        res.violation('titles-wrong', 'C11.request', '%s: called %r calling %r' % (
            where, tree['called'], tree['calling']), case)
    apps = [i for i in tree['items'] if i['type'] == 0x10]
    if len(apps) != 1 or apps[0]['name'] != F.APP_CONTEXT:
        res.violation('application-context-wrong', 'C11.request', '%s: %r' % (where, apps), case)
    users = [i for i in tree['items'] if i['type'] == 0x50]
    maxlens = [s['maxlen'] for u in users for s in u['subs'] if s['type'] == 0x51]
    if maxlens != [max_len]:
        res.violation('maximum-length-wrong', 'C11.request', '%s: Maximum Length sub-items %r, entity '
                      'configured with %d' % (where, maxlens, max_len), case)
    if case.get('user_data'):
        res.count('oracle.user-items-of-this-request')
        subs = [s_ for u in users for s_ in u['subs']]
        idents = [(s_['primary'], s_['secondary']) for s_ in subs if s_['type'] == 0x58]
        extneg = [s_ for s_ in subs if s_['type'] == 0x56]
        if idents != [(b'second-user', b'second-secret')] or len(extneg) != 1 or \
                len(remote['user_data']) != len(custom):
            res.violation('user-items-of-another-request', 'C11.request',
                          '%s: second request with a shared remote description carries identities %r, %d '
                          'extended-negotiation items; the caller\'s user_data list now has %d items (%d given)'
                          % (where, idents, len(extneg), len(remote['user_data']), len(custom)), case)
    proposed = [i for i in tree['items'] if i['type'] == 0x20]
    ids = [i['id'] for i in proposed]
    if len(set(ids)) != len(ids) or any(i % 2 == 0 or not 1 <= i <= 255 for i in ids):
        res.violation('context-ids-not-distinct-odd', 'C11.request', '%s: ids %r' % (where, ids[:40]), case)
    names = [i['abstract']['name'].decode() for i in proposed]
    overlap = len(distinct_classes) != len(classes)
    for cls in distinct_classes:
        n = names.count(cls)
        if n != 1:
            key = 'class-proposed-%s' % ('zero-times' if n == 0 else 'several-times')
            if n > 1 and overlap and classes.count(cls) > 1:
                key = 'class-in-two-service-lists'
            res.violation(key, 'C11.request', '%s: %s proposed %d times' % (where, cls, n), case)
            break
    stray = [n for n in names if n not in distinct_classes]
    if stray:
        res.violation('unconfigured-class-proposed', 'C11.request', '%s: %r' % (where, stray[:3]), case)
    for item in proposed:
        got = sorted(t['name'].decode() for t in item['ts'])
        # the set the entity supported when the class was configured
        want_ts = TS_OF.get((id(ae), item['abstract']['name'].decode()), [sorted(str(t) for t in ae.supported_ts)])
        if got not in want_ts:
            res.violation('transfer-syntaxes-differ', 'C11.request', '%s: context %d proposes %r, '
                          'configured %r' % (where, item['id'], got, want_ts), case)
            break
    # ---------------- the reply
    if 'rj' in case:
        res.count('oracle.reject-reply')
        if not isinstance(error, exceptions.AssociationRejectedError) or \
                [error.result, error.source, error.diagnostic] != case['rj']:
            res.violation('rejection-not-reported', 'C11.reply', '%s: reply RJ%r surfaced as %r %r' % (
                where, case['rj'], type(error).__name__,
                getattr(error, '__dict__', None)), case)
        return
    if error is not None:
        key = 'request-raises'
        if case.get('hostile'):
            key = 'hostile-reply-raises:' + case['hostile']
        res.violation(key, 'C11.reply', '%s: request() raised %s: %s' % (where, type(error).__name__, error),
                      case)
        return
    res.count('oracle.usable-contexts')
    if captured.get('reordered'):
        res.count('oracle.reply-in-another-order')
    plan = captured['plan']
    usable = {cid: (abstract.decode(), ts.decode()) for cid, (result, ts, abstract) in plan.items()
              if result == 0}
    mine = {cid: (str(ctx.sop_class), str(ctx.supported_ts)) for cid, ctx in
            asce.accepted_contexts.items()}
    if mine != usable:
        extra = {k: v for k, v in mine.items() if usable.get(k) != v}
        missing = {k: v for k, v in usable.items() if mine.get(k) != v}
        res.violation('usable-contexts-differ', 'C11.reply',
                      '%s: requester regards %r as usable, reply accepted %r' % (
                          where, dict(list(extra.items())[:3]), dict(list(missing.items())[:3])), case)
    # ---------------- lookups
    res.count('oracle.lookup')
    by_class = {}
    for cid, (abstract, ts) in usable.items():
        by_class.setdefault(abstract, []).append((cid, ts))
    scu_classes = [c for k, c in configured if k == 'scu']
    for cls in distinct_classes + ['1.2.3.4.5.6.7.8.9']:
        try:
            svc = asce.get_scu(cls)
            outcome = svc()
            got = (outcome[2].id, str(outcome[2].supported_ts), str(outcome[2].sop_class))
        except exceptions.ClassNotSupportedError:
            got = None
        except Exception as exc:
            res.violation('lookup-raises-other-error', 'C11.lookup', '%s: get_scu(%s) raised %s: %s' % (
                where, cls, type(exc).__name__, exc), case)
            continue
        if cls in by_class and cls in scu_classes:
            if got is None:
                res.violation('lookup-fails-with-accepted-context', 'C11.lookup',
                              '%s: get_scu(%s) failed, accepted contexts %r' % (where, cls, by_class[cls]),
                              case)
            elif (got[0], got[1]) not in by_class[cls] or got[2] != cls:
                res.violation('lookup-binds-other-context', 'C11.lookup',
                              '%s: get_scu(%s) bound to %r, accepted %r' % (where, cls, got, by_class[cls]),
                              case)
        elif cls not in by_class and got is not None:
            res.violation('lookup-succeeds-without-context', 'C11.lookup',
                          '%s: get_scu(%s) returned a service bound to %r' % (where, cls, got), case)
