"""C13 - every association ending terminates the provider and releases the
connection.

Scenario corpus (vf.convo) for both roles on the real provider loop under the
simulated transport, crossed with:
 (a) the peer disconnecting after every byte prefix of its stream and between
     any two local steps, (b) the same with a connection reset,
 (c) peer silence at every step boundary followed by ARTIM expiry,
 (d) a stop request at every quiescent point.
Final-condition monitors are evaluated in virtual time: idle + transport closed
(where the standard says so), the user told when an association had been
indicated, run() returning after a stop request.
"""
from __future__ import annotations

from . import c05, convo, simnet
from .common import Result, rng

LEVEL = 'fault_enumeration'
ENGINE = 'simnet+convo'
TECHNIQUE = ('fault injection (disconnect / reset / silence / stop request at every byte prefix and step boundary of a '
             'scenario corpus) on the real provider loop under a simulated transport and virtual clock; end-state '
             'monitors with bounded-progress restatement of termination')
LEVEL_TEXT = ('every byte prefix and every step boundary of every scenario is a fault point and all are enumerated '
              '(exhaustive over the corpus); scenarios themselves are a finite sample')
LEVEL_NOTE = ('termination is decided in virtual time and loop-operation budgets, never wall clock; the threaded '
              'Association.kill() path is sampled separately over socketpairs (kill-threads shard)')
RULE = ('case = (scenario, fault kind, fault point[, recv size]); distinct = same tuple; non-trivial = the fault point '
        'lies strictly inside the conversation (not before its first byte)')
ASSUMPTIONS = ['ARTIM = 10 s as in the library; peer silence is modelled by advancing the virtual clock by 11 s']
REQUIRED = ['oracle.disconnect-ends-idle-closed', 'oracle.silence', 'oracle.stop-returns', 'oracle.user-told',
            'oracle.kill-returns', 'oracle.stale-user-primitive', 'oracle.connect-failure',
            'oracle.talkative-peer-that-never-closes']


def exhaustive(tier):
    return True


def plan(tier, seed):
    specs = []
    for name in convo.corpus():
        for kind in ('close', 'reset', 'silence', 'stop', 'chatter'):
            recvs = [65536] if tier == 'quick' or kind in ('silence', 'stop', 'chatter') else [65536, 16, 7]
            for recv in recvs:
                specs.append({'name': name, 'kind': kind, 'recv': recv})
    specs.append({'name': 'kill-threads', 'kind': 'kill'})
    specs.append({'name': 'stale-user', 'kind': 'stale'})
    specs.append({'name': 'send-fails', 'kind': 'send-fails'})
    specs.append({'name': 'big-request', 'kind': 'big-request'})
    return specs


STALE_FAULTS = ['pABORT', 'pUNK', 'pRELRQ', 'close', 'reset', 'pINV']


def stale_cases(res):
    """The association ends (peer abort / garbage / disconnect / release) just
    before a local step: the local user, who cannot know yet, still issues its
    next primitive.  Whatever the provider does with that primitive, the ending
    must still complete: no dead loop, idle + closed once the peer has closed
    and ARTIM has passed."""
    from . import fixtures as F
    for name, (role, steps) in convo.corpus().items():
        for k, step in enumerate(steps):
            if step[0] != 'user':
                continue
            for fault in STALE_FAULTS:
                for twice in (False, True):
                    case = {'kind': 'stale', 'scenario': name, 'point': [k, 0], 'fault': fault,
                            'twice': twice, 'recv': 65536}
                    part = list(steps[:k])
                    part.append(('peer', [F.PEER[fault]]) if fault in F.PEER else (fault,))
                    part.append(step)
                    if twice:
                        part.append(step)
                    tail = [('close',), ('time', 11.0), ('time', 11.0)]
                    sim = simnet.Sim(role, convo.build_script(role, part + tail))
                    sim.run()
                    res.evaluations += 1
                    res.distinct.add('stale|%s|%d|%s|%s' % (name, k, fault, twice))
                    res.count('oracle.stale-user-primitive')
                    where = '%s: %s just before local step %d (%s%s)' % (
                        name, fault, k, step[1], ' x2' if twice else '')
                    if sim.outcome != 'end-of-script':
                        key = {'raised': 'loop-died', 'blocked': 'blocking-recv',
                               'budget': 'spinning'}.get(sim.outcome, 'run-' + str(sim.outcome))
                        res.violation('%s:stale-user-primitive' % key, 'C13.stale',
                                      '%s: run() %s: %s (state Sta%d, closed=%s)' % (
                                          where, sim.outcome, sim.error, sim.state() + 1,
                                          sim.all_closed()), case)
                        continue
                    if sim.state() != 0 or not sim.all_closed():
                        res.violation('not-idle-closed:stale-user-primitive', 'C13.stale',
                                      '%s: final state Sta%d, closed=%r' % (
                                          where, sim.state() + 1, sim.all_closed()), case)
                    for described in sim.wire:
                        if described[0] == 'MALFORMED':
                            res.violation('malformed-output', 'C13.M6', '%s: %r' % (where, described),
                                          case)


def big_request_cases(res):
    """An A-ASSOCIATE-RQ of about 70 KB (120 presentation contexts with 8 long transfer syntaxes each): longer
    than any read buffer and than the entity's own maximum length (which only limits P-DATA-TF).  The
    association is then released / aborted locally with a peer that never closes / cut at the end."""
    from . import fixtures as F, refcodec as R
    ctxs = tuple((2 * k + 1, F.CT_STORAGE, tuple(b'1.2.826.0.1.3680043.9.7433.%d.%d.' % (k, j) + b'7' * 30
                                                 for j in range(8))) for k in range(120))
    big = R.build_pdu(F.assoc_rq_tree(contexts=ctxs))
    endings = {
        'released': [('user', 'uAC'), ('peer', [F.PEER['pRELRQ']]), ('user', 'uRELRP'), ('close',), ('time', 11.0)],
        'rejected-peer-stays': [('user', 'uRJ'), ('time', 11.0)],
        'aborted-peer-stays': [('user', 'uAC'), ('user', 'uABORT'), ('time', 11.0)],
        'peer-goes-away': [('close',), ('time', 11.0)],
    }
    for recv in (65536, 16384, 4096):
        for name, tail in endings.items():
            for seg in (None, 30000):
                case = {'kind': 'big-request', 'ending': name, 'recv': recv, 'segment': seg}
                first = [('peer', [big])] if seg is None else \
                    [('peer', [big[k:k + seg]]) for k in range(0, len(big), seg)]
                sim = simnet.Sim('acceptor', convo.build_script('acceptor', first + tail, mode='whole'),
                                 max_pdu_length=recv)
                sim.run()
                res.evaluations += 1
                res.distinct.add('big-request|%s|%d|%s' % (name, recv, seg))
                res.count('oracle.big-request')
                where = 'A-ASSOCIATE-RQ of %d bytes (maximum length %d, segments of %s), then %s' % (
                    len(big), recv, seg, name)
                kinds = [i[0] for i in sim.indications]
                if sim.outcome != 'end-of-script':
                    key = {'raised': 'loop-died', 'blocked': 'blocking-recv',
                           'budget': 'spinning'}.get(sim.outcome, 'run-' + str(sim.outcome))
                    res.violation('%s:big-request' % key, 'C13.termination', '%s: run() %s: %s (state Sta%d)' % (
                        where, sim.outcome, sim.error, sim.state() + 1), case)
                elif sim.state() != 0 or not sim.all_closed():
                    res.violation('not-idle-closed:big-request', 'C13.final-state',
                                  '%s: final state Sta%d, closed=%r' % (where, sim.state() + 1, sim.all_closed()),
                                  case)
                elif kinds[:1] != ['A-ASSOCIATE-RQ']:
                    res.violation('valid-request-not-indicated:big-request', 'C13.user-told',
                                  '%s: indications %r' % (where, kinds), case)


def run_shard(spec, tier, seed):
    res = Result()
    if spec['kind'] == 'big-request':
        big_request_cases(res)
        return res
    if spec['kind'] == 'kill':
        return kill_threads(res, tier, seed)
    if spec['kind'] == 'stale':
        stale_cases(res)
        return res
    if spec['kind'] == 'send-fails':
        from . import c13send
        c13send.cases(res)
        c13send.connect_failures(res)
        return res
    role, steps = convo.corpus()[spec['name']]
    if spec['kind'] in ('close', 'reset'):
        for point in fault_points(steps):
            run_case(res, {'scenario': spec['name'], 'kind': spec['kind'], 'point': point,
                           'recv': spec['recv']})
    else:
        for k in range(len(steps) + 1):
            run_case(res, {'scenario': spec['name'], 'kind': spec['kind'], 'point': [k, 0],
                           'recv': spec['recv']})
        if spec['kind'] in ('stop', 'silence'):
            # also in the middle of a burst (bytes of an incomplete PDU buffered): for the stop
            # request a stride of the offsets, for silence a stride (quick) or all of them
            stride = 1 if (spec['kind'] == 'silence' and tier == 'thorough') else 17
            for point in fault_points(steps):
                if point[1] and point[1] % stride == 3 % stride:
                    run_case(res, {'scenario': spec['name'], 'kind': spec['kind'], 'point': point,
                                   'recv': spec['recv']})
    return res


def replay(case):
    res = Result()
    if case.get('kind') == 'big-request':
        big_request_cases(res)
        return res
    if case.get('kind') == 'kill':
        return kill_one(res, case)
    if case.get('kind') == 'stale':
        stale_cases(res)
        return res
    if case.get('kind') == 'send-fails':
        from . import c13send
        c13send.cases(res)
        c13send.connect_failures(res)
        return res
    run_case(res, case, verbose=True)
    return res


def fault_points(steps):
    """[step index, byte offset inside that peer burst] - the fault happens
    before step `index` (offset 0) or after `offset` bytes of burst `index`."""
    pts = []
    for i, step in enumerate(steps):
        pts.append([i, 0])
        if step[0] == 'peer':
            n = len(b''.join(step[1]))
            for off in range(1, n):
                pts.append([i, off])
    pts.append([len(steps), 0])
    return pts


def truncated(steps, point):
    k, off = point
    out = list(steps[:k])
    if off:
        blob = b''.join(steps[k][1])
        out.append(('peer', [blob[:off]]))
    return out


def run_case(res, case, verbose=False):
    role, steps = convo.corpus()[case['scenario']]
    kind, point = case['kind'], case['point']
    part = truncated(steps, point)
    if kind in ('close', 'reset'):
        if part and part[-1][0] == 'close':
            return            # the peer has already closed at this point
        tail = [(kind,), ('time', 11.0), ('time', 11.0)]
    elif kind == 'silence':
        tail = [('time', 11.0)]
    elif kind == 'chatter':
        # the peer does not close but keeps talking: something arrives every 4 s, for 12 s
        from . import fixtures as F
        second = ['pDATA', 'pUNK', 'pRQ', 'pRELRQ'][(point[0] + len(steps)) % 4]
        tail = [('time', 4.0), ('peer', [F.PEER['pDATA']]), ('time', 4.0), ('peer', [F.PEER[second]]),
                ('time', 4.0)]
    else:
        tail = [('stop',)]
    script = convo.build_script(role, part + tail)
    sim = simnet.Sim(role, script, max_pdu_length=case['recv'])
    sim.run()
    res.evaluations += 1
    if point != [0, 0]:
        res.distinct.add('%s|%s|%d.%d|%d' % (case['scenario'], kind, point[0], point[1],
                                             case['recv']))
    res.sample({'case': case, 'steps_run': [s[0] if s[0] != 'user' else s[1] for s in part],
                'final_state': 'Sta%d' % (sim.state() + 1), 'closed': sim.all_closed(),
                'indications': [i[0] for i in sim.indications], 'outcome': sim.outcome}, limit=5)
    if verbose:
        print([(s[0], len(s[1]) if s[0] == 'bytes' else s[1:]) for s in script])
        print('wire', sim.wire, 'ind', sim.indications, sim.outcome, sim.error)
    where = '%s, %s at step %d+%d bytes (recv %d)' % (case['scenario'], kind, point[0], point[1],
                                                      case['recv'])
    want_outcome = 'returned' if kind == 'stop' else 'end-of-script'
    if sim.outcome != want_outcome:
        key = {'raised': 'loop-died', 'blocked': 'blocking-recv', 'budget': 'spinning',
               'end-of-script': 'stop-request-ignored'}.get(sim.outcome, 'run-' + str(sim.outcome))
        res.count('oracle.stop-returns' if kind == 'stop' else 'oracle.disconnect-ends-idle-closed')
        res.violation('%s:%s' % (key, kind), 'C13.termination', '%s: run() %s: %s' % (
            where, sim.outcome, sim.error), case)
        return
    kinds = [i[0] for i in sim.indications]
    user_syms = [s[1] for s in part if s[0] == 'user']
    if kind in ('close', 'reset'):
        res.count('oracle.disconnect-ends-idle-closed')
        if sim.state() != 0 or not sim.all_closed():
            res.violation('not-idle-closed-after-disconnect', 'C13.final-state',
                          '%s: final state Sta%d, closed=%r' % (where, sim.state() + 1,
                                                                sim.all_closed()), case)
        if sim.timer_running:
            res.violation('timer-left-running', 'C13.final-state', '%s: ARTIM still running in Sta%d' % (
                where, sim.state() + 1), case)
        user_told(res, case, where, role, kinds, user_syms)
    elif kind == 'silence':
        res.count('oracle.silence')
        # state before the clock advanced
        before = [s for s in sim.trace if s['stimulus'] != ('time', 11.0)]
        prev = before[-1] if before else None
        if prev is not None:
            st = prev['state'] + 1
            if st in (2, 13):
                if sim.state() != 0 or not sim.all_closed():
                    res.violation('artim-expiry-does-not-end:Sta%d' % st, 'C13.silence',
                                  '%s: peer silent in Sta%d for 11 s, final Sta%d closed=%r' % (
                                      where, st, sim.state() + 1, sim.all_closed()), case)
            else:
                if sim.state() + 1 != st or sim.all_closed() != prev['closed'] or \
                        len(sim.indications) != prev['ind_n'] or len(sim.wire) != prev['wire_n']:
                    res.violation('time-passing-changes-state:Sta%d' % st, 'C13.silence',
                                  '%s: 11 s passing in Sta%d changed the provider: now Sta%d closed=%r '
                                  'wire %r ind %r' % (where, st, sim.state() + 1, sim.all_closed(),
                                                      sim.wire[prev['wire_n']:],
                                                      sim.indications[prev['ind_n']:]), case)
    elif kind == 'chatter':
        # judged where the provider was waiting for the peer to close (Sta13) when the chatter began:
        # ARTIM bounds that wait whatever the peer sends meanwhile
        n_tail = 5
        before = sim.trace[:-n_tail] if len(sim.trace) >= n_tail else []
        prev = before[-1] if before else None
        if prev is not None and prev['state'] + 1 == 13:
            res.count('oracle.talkative-peer-that-never-closes')
            if sim.state() != 0 or not sim.all_closed():
                res.violation('artim-does-not-bound-the-wait:talkative-peer', 'C13.silence',
                              '%s: peer keeps sending in Sta13 for 12 s without closing, final Sta%d closed=%r' % (
                                  where, sim.state() + 1, sim.all_closed()), case)
    else:
        res.count('oracle.stop-returns')
        if not sim.kill_returns():
            res.violation('stop-not-signalled', 'C13.stop',
                          '%s: run() returned but provider.kill() does not return' % where, case)
    c05.named_assertions(res, case, sim, 'C13')


def user_told(res, case, where, role, kinds, user_syms):
    res.count('oracle.user-told')
    told_start = (role == 'requestor') or 'A-ASSOCIATE-RQ' in kinds
    user_ended = any(s in ('uRJ', 'uABORT') for s in user_syms) or \
        ('uRELRP' in user_syms and 'A-RELEASE-RQ' in kinds)
    told_end = any(k in ('A-ABORT', 'A-ASSOCIATE-RJ', 'A-RELEASE-RP') for k in kinds)
    if told_start and not user_ended and not told_end:
        res.violation('user-not-told-association-gone', 'C13.user-told',
                      '%s: indications %r contain no abort/release/reject' % (where, kinds), case)


# --------------------------------------------------------------------------
# threaded confirmation: Association.kill() / provider.kill() return (real threads, socketpair)
# --------------------------------------------------------------------------
def kill_threads(res, tier, seed):
    names = list(convo.corpus())
    n = 40 if tier == 'quick' else 400
    r = rng(seed, 'c13-kill')
    for i in range(n):
        name = r.choice(names)
        role, steps = convo.corpus()[name]
        if role != 'acceptor':
            continue
        pts = fault_points(steps)
        kill_one(res, {'kind': 'kill', 'scenario': name, 'point': r.choice(pts),
                       'peer_closes': r.random() < 0.5})
    # the provider thread has died of something that is not the transport's fault (the user's data
    # stream fails while being fragmented inside the provider thread): a stop request still completes
    for k in range(3 if tier == 'quick' else 30):
        kill_one(res, {'kind': 'kill', 'scenario': 'A1-echo', 'point': [2, 0], 'peer_closes': k % 2 == 1,
                       'crash': ['first', 'second', 'type-error'][k % 3]})
    return res


def _failing_message(how):
    """What Association.send hands to the provider for a message whose data set is a stream: a
    generator of P-DATA-TF PDUs - here one whose source breaks."""
    from . import fixtures as F
    from . import libmap
    first = libmap.PDU_CLASSES[4].decode(F.PEER['pPART'])

    def gen():
        if how == 'first':
            raise ValueError('I/O operation on closed file')
        yield first
        if how == 'type-error':
            raise TypeError('a bytes-like object is required')
        raise OSError(5, 'Input/output error')       # an I/O error of the *file*, not of the socket
    return gen()


def kill_one(res, case):
    """Real DULServiceProvider thread on a real socketpair; the peer side is
    driven by this thread; after the fault point kill() must return."""
    import socket
    import threading
    import time
    from pynetdicom2 import dulprovider
    from . import fixtures as F
    role, steps = convo.corpus()[case['scenario']]
    part = truncated(steps, case['point'])
    a, b = socket.socketpair()
    res.evaluations += 1
    res.distinct.add('kill|%s|%d.%d|%s' % (case['scenario'], case['point'][0], case['point'][1],
                                           case['peer_closes']))
    prov = dulprovider.DULServiceProvider(frozenset(), None, a, 65536)
    try:
        for step in part:
            if step[0] == 'peer':
                b.sendall(b''.join(step[1]))
                time.sleep(0.06)
            elif step[0] == 'user':
                obj, _ = F.user_primitive(step[1])
                prov.send(obj)
                time.sleep(0.06)
            elif step[0] == 'close':
                b.close()
                time.sleep(0.06)
        if case.get('crash'):
            res.count('sim.provider-thread-crashed')
            prov.send(_failing_message(case['crash']))
            time.sleep(0.15)
        if case['peer_closes']:
            try:
                b.close()
            except OSError:
                pass
        done = threading.Event()

        def killer():
            prov.kill()
            done.set()
        t = threading.Thread(target=killer, daemon=True)
        t.start()
        res.count('oracle.kill-returns')
        # generous wall-clock watchdog: a loaded machine must not turn into a verdict lightly,
        # but kill() is specified to complete - 20 s without progress is reported
        if not done.wait(20.0):
            res.violation('kill-does-not-return', 'C13.kill',
                          'provider.kill() did not return within 20 s after %s at %r (peer_closes=%s, '
                          'state Sta%d)' % (case['scenario'], case['point'], case['peer_closes'],
                                            prov.state_machine.current_state + 1), case)
        prov.join(1.0)
    finally:
        prov.is_killed = True
        for s in (a, b):
            try:
                s.close()
            except OSError:
                pass
    return res
