"""Concrete peer byte strings (built with the reference codec only) and local
user primitives (built with the library's public classes) used by the
provider-level workloads (C03, C04, C05, C12, C13).
"""
from __future__ import annotations

from . import gen, refcodec as R

VERIFICATION = b'1.2.840.10008.1.1'
CT_STORAGE = b'1.2.840.10008.5.1.4.1.1.2'
IMPLICIT = b'1.2.840.10008.1.2'
EXPLICIT = b'1.2.840.10008.1.2.1'
APP_CONTEXT = b'1.2.840.10008.3.1.1.1'
IMPL_UID = b'1.2.826.0.1.3680043.9.9999.1'


def assoc_rq_tree(contexts=((1, VERIFICATION, (IMPLICIT,)),), max_len=16384, called=b'ANY-SCP',
                  calling=b'ECHOSCU', extra_subs=()):
    items = [{'type': 0x10, 'rsv': 0, 'name': APP_CONTEXT}]
    for pcid, abstract, tss in contexts:
        items.append({'type': 0x20, 'rsv1': 0, 'id': pcid, 'rsv2': 0, 'rsv3': 0, 'rsv4': 0,
                      'abstract': {'type': 0x30, 'rsv': 0, 'name': abstract},
                      'ts': [{'type': 0x40, 'rsv': 0, 'name': t} for t in tss]})
    items.append({'type': 0x50, 'rsv': 0, 'subs': [
        {'type': 0x51, 'rsv': 0, 'maxlen': max_len},
        {'type': 0x52, 'rsv': 0, 'uid': IMPL_UID}] + list(extra_subs)})
    return {'type': 1, 'rsv1': 0, 'version': 1, 'rsv2': 0, 'called': called, 'calling': calling,
            'rsv3': b'\0' * 32, 'items': items}


def assoc_ac_tree(contexts=((1, 0, IMPLICIT),), max_len=16384, called=b'ANY-SCP',
                  calling=b'ECHOSCU'):
    items = [{'type': 0x10, 'rsv': 0, 'name': APP_CONTEXT}]
    for pcid, result, ts in contexts:
        items.append({'type': 0x21, 'rsv1': 0, 'id': pcid, 'rsv2': 0, 'result': result, 'rsv3': 0,
                      'ts': {'type': 0x40, 'rsv': 0, 'name': ts}})
    items.append({'type': 0x50, 'rsv': 0, 'subs': [
        {'type': 0x51, 'rsv': 0, 'maxlen': max_len},
        {'type': 0x52, 'rsv': 0, 'uid': IMPL_UID}]})
    return {'type': 2, 'rsv1': 0, 'version': 1, 'rsv2': 0, 'called': called, 'calling': calling,
            'rsv3': b'\0' * 32, 'items': items}


def echo_rq_command(msg_id=1):
    return R.build_command_set({
        R.TAG_AFFECTED_SOP_CLASS: VERIFICATION.decode(), R.TAG_COMMAND_FIELD: 0x0030,
        R.TAG_MESSAGE_ID: msg_id, R.TAG_DATA_SET_TYPE: 0x0101})


def echo_rsp_command(msg_id=1, status=0):
    return R.build_command_set({
        R.TAG_AFFECTED_SOP_CLASS: VERIFICATION.decode(), R.TAG_COMMAND_FIELD: 0x8030,
        R.TAG_MESSAGE_ID_RSP: msg_id, R.TAG_DATA_SET_TYPE: 0x0101, R.TAG_STATUS: status})


def store_rq_command(msg_id=1, sop_class=CT_STORAGE, instance=b'1.2.3.4.5.6.7'):
    return R.build_command_set({
        R.TAG_AFFECTED_SOP_CLASS: sop_class.decode(), R.TAG_COMMAND_FIELD: 0x0001,
        R.TAG_MESSAGE_ID: msg_id, R.TAG_PRIORITY: 0, R.TAG_DATA_SET_TYPE: 0x0001,
        R.TAG_AFFECTED_SOP_INSTANCE: instance.decode()})


def store_rsp_command(msg_id=1, sop_class=CT_STORAGE, instance=b'1.2.3.4.5.6.7', status=0):
    return R.build_command_set({
        R.TAG_AFFECTED_SOP_CLASS: sop_class.decode(), R.TAG_COMMAND_FIELD: 0x8001,
        R.TAG_MESSAGE_ID_RSP: msg_id, R.TAG_DATA_SET_TYPE: 0x0101, R.TAG_STATUS: status,
        R.TAG_AFFECTED_SOP_INSTANCE: instance.decode()})


def pdata(pdvs):
    return R.build_pdu({'type': 4, 'rsv': 0, 'pdvs': pdvs})


def pdv(ctx, hdr, payload):
    return {'ctx': ctx, 'data': bytes([hdr]) + payload}


ECHO = echo_rq_command()

PEER = {
    'pRQ': R.build_pdu(assoc_rq_tree()),
    'pAC': R.build_pdu(assoc_ac_tree()),
    'pRJ': R.build_pdu({'type': 3, 'result': 1, 'source': 1, 'reason': 3}),
    'pDATA': pdata([pdv(1, 3, ECHO)]),
    'pPART': pdata([pdv(1, 1, ECHO[:20])]),
    'pREST': pdata([pdv(1, 3, ECHO[20:])]),
    'pRELRQ': R.build_pdu({'type': 5}),
    'pRELRP': R.build_pdu({'type': 6}),
    'pABORT': R.build_pdu({'type': 7, 'source': 2, 'reason': 4}),
    # A-ASSOCIATE-RQ of a peer that supports further protocol versions as well (bit 0 = version 1:
    # PS3.8 9.3.2 "a receiver ... shall only test that bit 0 is set")
    'pRQv2': R.build_pdu(dict(assoc_rq_tree(), version=0x0002)),      # bit 0 (version 1) NOT set
    'pRQv3': R.build_pdu(dict(assoc_rq_tree(), version=0x0003)),
    'pRQvFFFF': R.build_pdu(dict(assoc_rq_tree(), version=0xFFFF)),
    'pACv8001': R.build_pdu(dict(assoc_ac_tree(), version=0x8001)),
    'pABORTu': R.build_pdu({'type': 7, 'source': 0, 'reason': 0}),
    'pRJt': R.build_pdu({'type': 3, 'result': 2, 'source': 3, 'reason': 1}),
    'pUNK': bytes([0x0A, 0, 0, 0, 0, 4, 1, 2, 3, 4]),
    'pINV': bytes([0x01, 0, 0, 0, 0, 10]) + b'\x00\x01' + b'X' * 8,
}
PEER_KIND = {'pRQ': 'A-ASSOCIATE-RQ', 'pAC': 'A-ASSOCIATE-AC', 'pRJ': 'A-ASSOCIATE-RJ',
             'pDATA': 'P-DATA-TF', 'pPART': 'P-DATA-TF', 'pREST': 'P-DATA-TF',
             'pRELRQ': 'A-RELEASE-RQ', 'pRELRP': 'A-RELEASE-RP', 'pABORT': 'A-ABORT',
             'pUNK': 'INVALID', 'pINV': 'INVALID'}
PEER_INFO = {'pDATA': {'completes': True}, 'pPART': {'completes': False},
             'pREST': {'completes': True}, 'pABORT': {'abort': (2, 4)}, 'pRJ': {'rj': (1, 1, 3)},
             'pABORTu': {'abort': (0, 0)}, 'pRJt': {'rj': (2, 3, 1)}}
PEER_KIND.update({'pRQv2': 'A-ASSOCIATE-RQ', 'pRQv3': 'A-ASSOCIATE-RQ', 'pRQvFFFF': 'A-ASSOCIATE-RQ', 'pACv8001': 'A-ASSOCIATE-AC',
                  'pABORTu': 'A-ABORT', 'pRJt': 'A-ASSOCIATE-RJ'})

USER_KIND = {'uRQ': 'A-ASSOCIATE-RQ', 'uAC': 'A-ASSOCIATE-AC', 'uRJ': 'A-ASSOCIATE-RJ',
             'uDATA': 'P-DATA-TF', 'uDATA2': 'P-DATA-TF', 'uRELRQ': 'A-RELEASE-RQ',
             'uRELRP': 'A-RELEASE-RP', 'uABORT': 'A-ABORT'}


def user_primitive(sym):
    """-> (object handed to the provider, [expected wire bytes per PDU])"""
    from pynetdicom2 import pdu as P
    from . import libmap
    if sym == 'uRQ':
        obj = libmap.tree_to_lib(assoc_rq_tree(calling=b'LOCAL', called=b'REMOTE'))
        obj.called_presentation_address = ('peer.example', 104)
        return obj, [obj.encode()]
    if sym == 'uAC':
        obj = libmap.tree_to_lib(assoc_ac_tree())
        return obj, [obj.encode()]
    if sym == 'uRJ':
        obj = P.AAssociateRjPDU(2, 1, 7)
        return obj, [obj.encode()]
    if sym == 'uDATA':
        obj = P.PDataTfPDU([P.PresentationDataValueItem(1, b'\x03' + echo_rsp_command())])
        return obj, [obj.encode()]
    if sym == 'uDATA2':
        cmd = echo_rsp_command()
        parts = [P.PDataTfPDU([P.PresentationDataValueItem(1, b'\x01' + cmd[:16])]),
                 P.PDataTfPDU([P.PresentationDataValueItem(1, b'\x03' + cmd[16:])])]
        return iter(parts), [p.encode() for p in parts]
    if sym == 'uRELRQ':
        obj = P.AReleaseRqPDU()
        return obj, [obj.encode()]
    if sym == 'uRELRP':
        obj = P.AReleaseRpPDU()
        return obj, [obj.encode()]
    if sym == 'uABORT':
        obj = P.AAbortPDU(source=0, reason_diag=0)
        return obj, [obj.encode()]
    raise KeyError(sym)
