"""C19 - two retrieves in flight in one process.

Two C-GET users (two associations, one process) are advanced alternately, one
step at a time, so that every C-STORE sub-operation of one lies between two of
the other.  Each C-STORE request must be answered on its own association with
its own message id, SOP class and instance UID, and each user must be handed
its own instances in order.
"""
from __future__ import annotations

from . import refcodec as R, stubdul, svc
from .common import rng


def run(res, seed, n_rounds):
    from pynetdicom2 import applicationentity, asceprovider, dsutils, sopclass, statuses
    import pydicom
    for k in range(n_rounds):
        r = rng(seed, 'c19-pair', k)
        res.evaluations += 1
        case = {'pair': True, 'round': k, 'seed': seed}
        counts = [r.choice([1, 2, 3, 5]), r.choice([1, 2, 3, 5])]
        res.distinct.add('pair|%d|%d' % tuple(counts))
        plans = []
        with stubdul.stubbed() as Stub:
            gens = []
            for a in range(2):
                class GetAE(applicationentity.ClientAE):
                    def on_receive_store(self, context, ds):
                        return statuses.SUCCESS
                ae = GetAE('GETSCU%d' % a)
                ae.add_scu(sopclass.qr_get_scu)
                ae.add_scu(_memory_storage(), [svc.CT, svc.MR])
                store_ctx = {str(c.sop_class): cid for cid, c in ae.context_def_list.items()}
                assoc = asceprovider.Association(ae, None, 16384)
                stub = Stub.instances[-1]
                sent_stores = []
                get_id = 100 + a
                for j in range(counts[a]):
                    sop = [svc.CT, svc.MR][(a + j) % 2]
                    inst = '1.2.826.19.%d.%d.%d' % (k, a, j)
                    mid = 1000 * (a + 1) + j
                    ds = pydicom.Dataset()
                    ds.SOPClassUID = sop
                    ds.SOPInstanceUID = inst
                    stub.script.append((svc.request_message('CStoreRQMessage', {
                        R.TAG_AFFECTED_SOP_CLASS: sop, R.TAG_COMMAND_FIELD: 0x0001, R.TAG_MESSAGE_ID: mid,
                        R.TAG_PRIORITY: 0, R.TAG_AFFECTED_SOP_INSTANCE: inst}, dsutils.encode(ds, True, True)),
                        store_ctx[sop]))
                    sent_stores.append((store_ctx[sop], mid, sop, inst))
                stub.script.append((svc.request_message('CGetRSPMessage', {
                    R.TAG_AFFECTED_SOP_CLASS: svc.GET, R.TAG_COMMAND_FIELD: 0x8010, R.TAG_MESSAGE_ID_RSP: get_id,
                    R.TAG_STATUS: 0, R.TAG_COMPLETED: counts[a], R.TAG_FAILED: 0, R.TAG_WARNING: 0}), 77))
                q = pydicom.Dataset()
                q.PatientID = 'P%d' % a
                gens.append(sopclass.qr_get_scu(assoc, svc.context(77, svc.GET), q, get_id))
                plans.append({'stub': stub, 'stores': sent_stores, 'yielded': []})
            # advance the two users alternately
            alive = [True, True]
            error = None
            while any(alive):
                for a in range(2):
                    if not alive[a]:
                        continue
                    try:
                        ctx, item = next(gens[a])
                        plans[a]['yielded'].append(str(getattr(item, 'SOPInstanceUID', None)))
                    except StopIteration:
                        alive[a] = False
                    except Exception as exc:
                        error = '%s: %s' % (type(exc).__name__, exc)
                        alive[a] = False
            for p in plans:
                p['messages'] = svc.sent(p['stub'])
        res.count('oracle.interleaved-retrieves')
        where = 'two C-GET users advanced alternately (%d and %d sub-operations)' % tuple(counts)
        if error:
            res.violation('get-user-raises:interleaved', 'C19.get', '%s: %s' % (where, error), case)
            continue
        for a, p in enumerate(plans):
            rsps = [m for m in p['messages'] if m['command'].get(R.TAG_COMMAND_FIELD) == 0x8001]
            got = [(m['ctx'], m['command'].get(R.TAG_MESSAGE_ID_RSP), m['command'].get(R.TAG_AFFECTED_SOP_CLASS),
                    m['command'].get(R.TAG_AFFECTED_SOP_INSTANCE)) for m in rsps]
            if got != p['stores']:
                res.violation('get-store-response-of-another-retrieve', 'C19.get',
                              '%s: user %d answered its C-STORE requests %r with %r' % (
                                  where, a, p['stores'][:3], got[:3]), case)
                break
            if p['yielded'] != [s[3] for s in p['stores']]:
                res.violation('get-yield-sequence:interleaved', 'C19.get', '%s: user %d was handed %r' % (
                    where, a, p['yielded'][:4]), case)
                break


def _memory_storage():
    def storage(asce, ctx, msg):
        pass
    storage.sop_classes = []
    return storage
