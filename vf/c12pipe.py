"""C12 - hostile input behind a pipeline of valid requests.

A peer sends several hundred valid requests without waiting for any answer (the
application is still busy with the first one), then a PDU of unknown type, then
closes.  The provider must still read and judge the unknown PDU - answer it with
an A-ABORT - and notice the close, however far behind the application is; when
the application comes back everything ends.  Real threads, real TCP (the
indication queue between provider and application is part of what is tested).
"""
from __future__ import annotations

import threading

from . import refcodec as R, svc, tcpnet

PIPELINED = [150, 2500, 1000, 400]        # (more than a thousand unread indications as well)


def run_case(res, case, attempt=0):
    from pynetdicom2 import applicationentity, sopclass, statuses
    k, seed = case['index'], case['seed']
    n = PIPELINED[k % len(PIPELINED)]
    bad = [bytes([0x0A, 0, 0, 0, 0, 4, 1, 2, 3, 4]), bytes([0x01, 0, 0, 0, 0, 10]) + b'\x00\x01' + b'X' * 8,
           bytes([0xFF, 0, 0, 0, 0, 0])][(k // len(PIPELINED)) % 3]
    if not attempt:
        res.evaluations += 1
    res.distinct.add('pipeline|%d|%02X' % (n, bad[0]))
    where = 'pipeline of %d C-ECHO-RQ, then a PDU of type %02XH, then close' % (n, bad[0])
    case = dict(case, pipeline=True)
    gate = threading.Event()
    calls = []

    class Server(tcpnet.TapServerMixin, applicationentity.AE):
        def on_receive_echo(self, context):
            calls.append(1)
            gate.wait(30)           # the application is busy
            return statuses.SUCCESS

    net = tcpnet.Net(seed=seed * 7 + k)
    got_abort = None
    error = None
    closed_seen = None
    try:
        with tcpnet.instrument(net):
            server = Server('PIPESCP', 0)
            server.net = net
            server.timeout = 5
            server.add_scp(sopclass.verification_scp)
            with tcpnet.serving(server):
                peer = tcpnet.RefPeer.connect(server.port, timeout=10.0)
                try:
                    peer.associate([(1, svc.VERIFICATION.encode(), (b'1.2.840.10008.1.2',))], called=b'PIPESCP')
                    blob = b''
                    for j in range(n):
                        cmd = R.build_command_set({R.TAG_AFFECTED_SOP_CLASS: svc.VERIFICATION,
                                                   R.TAG_COMMAND_FIELD: 0x0030, R.TAG_MESSAGE_ID: j % 65536,
                                                   R.TAG_DATA_SET_TYPE: 0x0101})
                        blob += R.build_pdu({'type': 4, 'rsv': 0, 'pdvs': [{'ctx': 1, 'data': b'\x03' + cmd}]})
                    peer.send_raw(blob + bad)
                    try:
                        while True:
                            tree = peer.recv_pdu()
                            if tree['type'] == 7:
                                got_abort = (tree['source'], tree['reason'])
                                break
                    except tcpnet.PeerClosed:
                        got_abort = 'closed-without-abort'
                finally:
                    peer.close()
                # the application comes back: the association must now end
                gate.set()
                closed_seen = tcpnet.wait_quiet(0, 10.0)
    except Exception as exc:
        error = exc
    finally:
        gate.set()
    tcpnet.wait_quiet(0, 5.0)
    if tcpnet.is_timeout(error) and attempt < 2:
        res.count('flaky-timeouts')
        return run_case(res, case, attempt + 1)
    res.count('oracle.pipelined-then-invalid')
    res.sample({'case': case, 'pipelined': n, 'answer': got_abort, 'handler_calls': len(calls)}, limit=3)
    if tcpnet.is_timeout(error) or got_abort is None:
        res.violation('invalid-pdu-not-answered-by-abort:behind-pipeline', 'C12.invalid-pdu',
                      '%s: no A-ABORT within 10 s while the application was busy (%s)' % (where, error), case)
        return
    if error is not None:
        res.violation('loop-died:pipeline', 'C12.no-crash', '%s: %s: %s' % (where, type(error).__name__, error),
                      case)
        return
    if got_abort == 'closed-without-abort':
        res.violation('invalid-pdu-not-answered-by-abort:behind-pipeline', 'C12.invalid-pdu',
                      '%s: connection closed without an A-ABORT' % where, case)
    if not closed_seen:
        res.violation('not-idle-closed-after-peer-close:pipeline', 'C12.final-state',
                      '%s: provider thread still alive 10 s after the peer closed and the application '
                      'returned' % where, case)


TITLES = [b'K\xc3\x96LN', b'\xe6\x97\xa5\xe6\x9c\xac', b'CAF\xc3\x89-SCU', b'\xf0\x9f\x98\x80A']


def run_title_case(res, case, attempt=0):
    """An A-ASSOCIATE-RQ whose AE titles are well-formed UTF-8 (not ASCII) reaches a real accepting
    entity, which repeats them in its reply: whatever the answer is (accept, reject, abort), there
    is one, and the connection is not left to rot."""
    from pynetdicom2 import applicationentity, sopclass
    from . import fixtures as F
    k, seed = case['index'], case['seed']
    title = TITLES[k % len(TITLES)]
    if not attempt:
        res.evaluations += 1
    res.distinct.add('utf8-title|%d' % (k % len(TITLES)))
    where = 'A-ASSOCIATE-RQ with the AE title %r sent to an accepting entity' % title
    case = dict(case, pipeline=True, title=True)

    class Server(tcpnet.TapServerMixin, applicationentity.AE):
        pass
    net = tcpnet.Net(seed=seed * 11 + k)
    reply = None
    error = None
    died = []
    old_hook = threading.excepthook

    def hook(args):
        # an exception that ends a provider thread (the library's last resort re-raises it)
        if 'DULServiceProvider' in type(args.thread).__name__:
            died.append('%s: %s' % (args.exc_type.__name__, args.exc_value))
    threading.excepthook = hook
    try:
        reply, error, quiet = _title_exchange(net, Server, sopclass, F, title, k)
    finally:
        threading.excepthook = old_hook
    if tcpnet.is_timeout(error) and attempt < 2:
        res.count('flaky-timeouts')
        return run_title_case(res, case, attempt + 1)
    res.count('oracle.non-ascii-title-answered')
    if died:
        res.violation('loop-died:' + died[0].split(':')[0], 'C12.no-crash',
                      '%s: the provider thread ended with %s' % (where, died[0]), case)
    if error is not None or reply is None:
        res.violation('request-with-non-ascii-title-not-answered', 'C12.no-crash',
                      '%s: no A-ASSOCIATE-AC / RJ / A-ABORT and no close within 10 s (%s)' % (where, error), case)
    elif not quiet:
        res.violation('not-idle-closed-after-peer-close:non-ascii-title', 'C12.final-state',
                      '%s: answered with %r but the provider thread is still alive 10 s after the peer closed' % (
                          where, reply), case)


def _title_exchange(net, Server, sopclass, F, title, k):
    reply = error = None
    with tcpnet.instrument(net):
        server = Server('ANY-SCP', 0)
        server.net = net
        server.timeout = 5
        server.add_scp(sopclass.verification_scp)
        with tcpnet.serving(server):
            try:
                peer = tcpnet.RefPeer.connect(server.port, timeout=10.0)
                try:
                    if (k // len(TITLES)) % 2:
                        # ASCII titles, but an optional user-information item longer than its nominal
                        # maximum (implementation version name of 17..64 characters): the accepting
                        # entity repeats the items it was sent
                        peer.send_pdu(F.assoc_rq_tree(called=b'ANY-SCP', calling=b'ASCII-SCU', extra_subs=[
                            {'type': 0x55, 'rsv': 0, 'name': b'V' * (17, 33, 64, 200)[k % 4]}]))
                    else:
                        peer.send_pdu(F.assoc_rq_tree(called=title if k % 2 else b'ANY-SCP',
                                                      calling=title if k % 2 == 0 else b'ASCII-SCU'))
                    try:
                        reply = peer.recv_pdu()['type']
                        if reply == 2:
                            peer.release()
                    except tcpnet.PeerClosed:
                        reply = 'closed'
                finally:
                    peer.close()
            except Exception as exc:
                error = exc
            quiet = tcpnet.wait_quiet(0, 10.0)
    return reply, error, quiet
