"""C07 - DIMSE reassembly is exact under any PDV grouping; completion is
detected exactly.

Fragment lists (from the library's own fragmenter and from the reference
fragmenter) are grouped into P-DATA-TF PDUs in every possible way (all 2^(n-1)
compositions for short lists, seeded random ones beyond), encoded by the
reference codec, decoded by the real ``PDataTfPDU.decode`` and fed to the real
``DIMSEDecoder.process``; a sample also runs through the whole provider loop in
Sta6 / Sta7 (simulated transport) observing ``to_service_user``.  File-backed
reception uses the real ``AEBase.get_file`` and the directory storage of
``StorageAE``.
"""
from __future__ import annotations

import io
import os
import shutil
import tempfile

from . import c05, fixtures as F, msgs, refcodec as R, simnet
from .common import Result, rng, chunked

LEVEL = 'exploration'
ENGINE = 'refcodec+simnet'
TECHNIQUE = ('runtime monitor on the real DIMSEDecoder / provider loop: completion index, message class, command set '
             'and data bytes compared with an independent expectation for every composition of the fragment list')
LEVEL_TEXT = ('all compositions of fragment lists up to the bound are enumerated (exhaustive within the bound), longer '
              'lists by seeded random compositions; all 23 command fields; in-memory and file-backed reception in '
              'three transfer syntaxes')
LEVEL_NOTE = ('pydicom is trusted to read the stored Part-10 file back; PDUs mixing fragments of two messages are '
              'outside the property')
RULE = ('case = (message class, data length, fragment sizes, composition into PDUs, reception mode); distinct = same '
        'tuple; non-trivial = at least two fragments or file-backed reception')
ASSUMPTIONS = ['fragment streams are well-formed as in C06 (command fragments first, one last fragment each)']
REQUIRED = ['oracle.file-then-memory-then-file', 'sim.empty-last-fragment', 'oracle.message-across-release-request', 'oracle.hundreds-of-command-fragments', 'oracle.completion-exact', 'oracle.message-content', 'oracle.file-backed', 'oracle.via-provider',
            'oracle.consecutive-messages']

MAXN = {'quick': 7, 'thorough': 11}
NRANDOM = {'quick': 1500, 'thorough': 100000}
TS = {'implicit': '1.2.840.10008.1.2', 'explicit': '1.2.840.10008.1.2.1',
      'bigendian': '1.2.840.10008.1.2.2'}


def exhaustive(tier):
    return False


def plan(tier, seed):
    specs = []
    names = msgs.CLASS_NAMES
    for part in chunked(names, 8):
        specs.append({'name': 'compositions', 'classes': part})
    for p in chunked(range(NRANDOM[tier]), 6):
        if p:
            specs.append({'name': 'random', 'lo': p[0], 'hi': p[-1] + 1})
    specs.append({'name': 'file'})
    specs.append({'name': 'provider'})
    specs.append({'name': 'long-commands'})
    return specs


def run_shard(spec, tier, seed):
    res = Result()
    tmpdir = tempfile.mkdtemp(prefix='vf-c07-')
    try:
        if spec['name'] == 'compositions':
            for name in spec['classes']:
                for with_data in (False, True):
                    for nfrag in range(1, MAXN[tier] + 1):
                        if with_data and nfrag < 2:
                            continue
                        for comp_index, comp in enumerate(R.compositions(nfrag)):
                            run_case(res, {'kind': 'memory', 'cls': name, 'data': with_data,
                                           'nfrag': nfrag, 'comp': comp, 'seed': seed,
                                           'source': 'ref' if (nfrag + comp_index) % 2 else 'lib'},
                                     tmpdir)
        elif spec['name'] == 'random':
            for i in range(spec['lo'], spec['hi']):
                r = rng(seed, 'c07-rand', i)
                nfrag = r.randrange(8, 40)
                comp = random_composition(r, nfrag)
                kind = r.choice(['memory', 'memory', 'tempfile', 'storage-dir'])
                in_file = kind != 'memory'
                run_case(res, {'kind': kind,
                               'cls': 'CStoreRQMessage' if in_file else r.choice(msgs.CLASS_NAMES),
                               'data': True if in_file else r.random() < 0.7,
                               'nfrag': nfrag, 'comp': comp, 'seed': seed,
                               'source': 'ref' if in_file else r.choice(['ref', 'lib']), 'salt': i,
                               'ts': r.choice(sorted(TS))}, tmpdir)
        elif spec['name'] == 'file':
            for ts in sorted(TS):
                for kind in ('tempfile', 'storage-dir'):
                    for nfrag in range(2, MAXN[tier] + 1):
                        for comp in R.compositions(nfrag):
                            run_case(res, {'kind': kind, 'cls': 'CStoreRQMessage', 'data': True,
                                           'nfrag': nfrag, 'comp': comp, 'seed': seed, 'ts': ts,
                                           'source': 'ref'}, tmpdir)
        elif spec['name'] == 'long-commands':
            # command sets of several hundred bytes (N-GET-RQ with a long Attribute Identifier
            # List) arriving in fragments of one or two bytes: hundreds of command fragments
            for ntags in (40, 70, 130) if tier == 'quick' else (40, 64, 70, 100, 130, 250, 500):
                for nfrag in ('max', 'half'):
                    for comp in ('one', 'each', 'random'):
                        for kind in ('memory', 'provider'):
                            run_case(res, {'kind': kind, 'state': 'Sta6', 'cls': 'NGetRQMessage',
                                           'data': False, 'nfrag': nfrag, 'comp': comp, 'seed': seed,
                                           'source': 'lib', 'long': ntags}, tmpdir)
        else:
            for state in ('Sta6', 'Sta7', 'Sta6>7'):
                for name in msgs.CLASS_NAMES:
                    for nfrag in (1, 2, 3, 5):
                        for comp in R.compositions(nfrag):
                            run_case(res, {'kind': 'provider', 'state': state, 'cls': name,
                                           'data': nfrag > 1, 'nfrag': nfrag, 'comp': comp,
                                           'seed': seed, 'source': 'ref'}, tmpdir)
    finally:
        shutil.rmtree(tmpdir, ignore_errors=True)
    return res


def replay(case):
    res = Result()
    tmpdir = tempfile.mkdtemp(prefix='vf-c07-')
    try:
        run_case(res, case, tmpdir)
    finally:
        shutil.rmtree(tmpdir, ignore_errors=True)
    return res


def random_composition(r, n):
    comp = []
    left = n
    while left:
        k = min(left, r.choice([1, 1, 2, 3, 5]))
        comp.append(k)
        left -= k
    return comp


def dataset_bytes(r, ts, size_hint):
    """A real data set encoded in the given transfer syntax (pydicom)."""
    import pydicom
    from pynetdicom2 import dsutils
    from pydicom import uid
    ds = pydicom.Dataset()
    ds.PatientName = 'TEST^%d' % r.randrange(10 ** 6)
    ds.PatientID = 'ID%d' % r.randrange(10 ** 6)
    ds.SOPClassUID = '1.2.840.10008.5.1.4.1.1.2'
    ds.SOPInstanceUID = '1.2.3.%d' % r.randrange(10 ** 9)
    ds.Rows = r.randrange(65536)
    item = pydicom.Dataset()
    item.CodeValue = 'C%d' % r.randrange(1000)
    ds.ConceptNameCodeSequence = pydicom.Sequence([item])
    ds.ImageComments = 'x' * size_hint
    u = uid.UID(TS[ts])
    return dsutils.encode(ds, u.is_implicit_VR, u.is_little_endian), ds


def build_fragments(case, r):
    """-> (pdvs, command bytes, data bytes or None, expected field dict, ctx)"""
    name = case['cls']
    with_data = case['data']
    nfrag = case['nfrag']
    ctx = r.choice([1, 3, 5, 255])
    if case['kind'] in ('tempfile', 'storage-dir'):
        data, _ds = dataset_bytes(r, case.get('ts', 'implicit'), r.choice([10, 50, 200]))
    else:
        data = bytes(r.getrandbits(8) for _ in range(r.choice([nfrag, 2 * nfrag + 3, 64]))) \
            if with_data else None
    if case['source'] == 'lib':
        msg, values = msgs.make(name, r, unset_prob=0.2)
        if data is not None:
            msg.data_set = data
        if case.get('long'):
            msg.command_set.AttributeIdentifierList = [r.randrange(0x00080000, 0x7FFFFFFF)
                                                       for _ in range(case['long'])]
        msg.set_length()
        from pynetdicom2 import dsutils
        command = dsutils.encode(msg.command_set, True, True)
        if nfrag == 'max':
            nfrag = len(command)
        elif nfrag == 'half':
            nfrag = len(command) // 2
    else:
        command, fields = msgs.reference_command(name, r, with_data=data is not None)
    # cut into exactly nfrag fragments: ncmd command + ndata data fragments
    if data is not None:
        ndata = max(1, min(nfrag - 1, r.randrange(1, nfrag))) if nfrag > 1 else 0
        if nfrag == 1:
            return None
    else:
        ndata = 0
    ncmd = nfrag - ndata
    if ncmd > len(command) or (data is not None and ndata > len(data)):
        return None

    def cut(blob, n):
        if n == 1:
            return [len(blob)]
        points = sorted(r.sample(range(1, len(blob)), n - 1))
        return [b - a for a, b in zip([0] + points, points + [len(blob)])]
    # sometimes the last command / data fragment is empty (only its "last" bit matters)
    el = case.get('empty_last')
    if el is None:
        el = r.random() < 0.2
    el_cmd = bool(el) and ncmd >= 2 and r.random() < 0.5
    el_data = bool(el) and data is not None and ndata >= 2 and (not el_cmd or r.random() < 0.5)
    pdvs = R.fragment(command, data, 0, ctx, cmd_sizes=cut(command, ncmd - el_cmd),
                      data_sizes=cut(data, ndata - el_data) if data is not None else None,
                      empty_last_cmd=el_cmd, empty_last_data=el_data)
    if el_cmd or el_data:
        case['_empty_last'] = True
    assert len(pdvs) == nfrag, (len(pdvs), nfrag)
    if case.get('long'):
        case['nfrag'] = nfrag
        case['comp'] = {'one': [nfrag], 'each': [1] * nfrag}.get(case['comp']) or random_composition(r, nfrag)
    return pdvs, command, data, ctx


_shared = {}


def run_case(res, case, tmpdir):
    from pynetdicom2 import fsm, pdu as P
    case = dict(case)
    r = rng(case['seed'], 'c07', case['cls'], case['data'], case['nfrag'], tuple(case['comp']),
            case['kind'], case.get('salt'))
    if case.get('long'):
        res.count('oracle.hundreds-of-command-fragments')
    built = build_fragments(case, r)
    if built is None:
        return
    pdvs, command, data, ctx = built
    if case.pop('_empty_last', None):
        res.count('sim.empty-last-fragment')
    res.evaluations += 1
    name = case['cls']
    comp = case['comp']
    if len(pdvs) > 1 or case['kind'] != 'memory':
        res.distinct.add('%s|%s|%d|%s|%s|%s' % (name, case['data'], case['nfrag'],
                                                '.'.join(map(str, comp)), case['kind'],
                                                case.get('state', case.get('ts', ''))))
    trees = R.group_pdvs(pdvs, comp)
    raws = [R.build_pdu(t) for t in trees]
    # index of the PDU that holds the last required fragment
    last_fragment = len(pdvs) - 1
    pos = 0
    complete_at = None
    for k, size in enumerate(comp):
        if pos <= last_fragment < pos + size:
            complete_at = k
        pos += size
    where = '%s data=%s fragments=%d composition=%s (%s)' % (name, data is not None, len(pdvs), comp,
                                                            case['kind'])
    res.sample({'case': {k: v for k, v in case.items()}, 'complete_at_pdu': complete_at,
                'fragment_sizes': [len(p['data']) - 1 for p in pdvs][:12]}, limit=5)
    if case['kind'] == 'provider':
        return via_provider(res, case, where, raws, complete_at, name, command, data, ctx)

    store_in_file = frozenset()
    get_file = None
    accepted = {}
    sop_class = None
    cs = R.parse_command_set(command)
    sop_class = cs.get(R.TAG_AFFECTED_SOP_CLASS) or cs.get(R.TAG_REQUESTED_SOP_CLASS)
    if case['kind'] in ('tempfile', 'storage-dir'):
        from pynetdicom2 import applicationentity, asceprovider
        import pynetdicom2
        from pydicom import uid
        ts = uid.UID(TS[case.get('ts', 'implicit')])
        accepted = {ctx: asceprovider.PContextDef(ctx, uid.UID(sop_class), ts)}
        if (case['nfrag'] + len(case['comp'])) % 3 == 0:
            # the message travels on the context of a Meta SOP Class: the context's abstract syntax
            # is not the SOP class of the message (which is the one configured for file storage)
            accepted = {ctx: asceprovider.PContextDef(ctx, uid.UID('1.2.840.10008.5.1.1.9'), ts)}
            res.count('sim.meta-sop-class-context')
        store_in_file = frozenset([sop_class])
        if case['kind'] == 'tempfile':
            # one entity for all cases of the process: it serves many associations in its life, with
            # whatever each of them negotiated for a context id
            if 'ae' not in _shared:
                _shared['ae'] = applicationentity.ClientAE('C07')
            get_file = _shared['ae'].get_file
        else:
            sdir = tempfile.mkdtemp(prefix='store-', dir=tmpdir)
            get_file = pynetdicom2.ClientStorageAE(sdir, 'C07').get_file
    dec = fsm.DIMSEDecoder(accepted, store_in_file, get_file)
    res.count('oracle.completion-exact')
    for k, raw in enumerate(raws):
        try:
            pd = P.PDataTfPDU.decode(raw)
            dec.process(pd)
        except Exception as exc:
            res.violation('reassembly-raises', 'C07.process', '%s: PDU %d: %s: %s' % (
                where, k, type(exc).__name__, exc), case)
            return
        if k < complete_at and not dec.receiving:
            res.violation('completion-signalled-early', 'C07.completion',
                          '%s: receiving=False after PDU %d, last required fragment is in PDU %d' % (
                              where, k, complete_at), case)
            return
        if k == complete_at and dec.receiving:
            res.violation('completion-signalled-late', 'C07.completion',
                          '%s: receiving still True after PDU %d which holds the last fragment' % (
                              where, k), case)
            return
        if k == complete_at:
            break
    check_message(res, case, where, dec.msg, dec.pc_id, name, command, data, ctx)


def check_message(res, case, where, msg, pc_id, name, command, data, ctx):
    res.count('oracle.message-content')
    if type(msg).__name__ != name:
        res.violation('wrong-message-class', 'C07.content', '%s: reassembled as %s' % (
            where, type(msg).__name__), case)
        return
    if pc_id != ctx:
        res.violation('wrong-context-id', 'C07.content', '%s: context id %r, sent on %r' % (
            where, pc_id, ctx), case)
    from pynetdicom2 import dsutils
    try:
        back = dsutils.encode(msg.command_set, True, True)
    except Exception as exc:
        back = b''
    want = R.parse_command_set(command)
    got = R.parse_command_set(back) if back else {}
    want.pop('_problems', None)
    got.pop('_problems', None)
    # the group length may be recomputed; every other element must be identical
    want.pop(R.TAG_GROUP_LENGTH, None)
    got.pop(R.TAG_GROUP_LENGTH, None)
    # Command Data Set Type says "present" with any value but 0101H: a library that stores the
    # canonical 0001H for a received 0000H / 0102H has kept its meaning
    for d in (want, got):
        if R.TAG_DATA_SET_TYPE in d:
            d[R.TAG_DATA_SET_TYPE] = 'absent' if d[R.TAG_DATA_SET_TYPE] == 0x0101 else 'present'
    if want != got:
        diff = [t for t in set(want) | set(got) if want.get(t) != got.get(t)]
        res.violation('command-set-differs', 'C07.content', '%s: command elements differ: %r' % (
            where, [(t, want.get(t), got.get(t)) for t in diff[:3]]), case)
    ds = msg.data_set
    if data is None:
        if ds:
            res.violation('unexpected-data-set', 'C07.content', '%s: data set %r although none sent' % (
                where, type(ds).__name__), case)
        return
    if case['kind'] == 'memory':
        if not isinstance(ds, (bytes, bytearray)) or bytes(ds) != data:
            res.violation('data-bytes-differ', 'C07.content', '%s: data set %s != %d bytes sent' % (
                where, ('%d bytes' % len(ds)) if isinstance(ds, (bytes, bytearray)) else type(ds).__name__,
                len(data)), case)
        return
    # file-backed reception
    res.count('oracle.file-backed')
    import pydicom
    if isinstance(ds, (bytes, bytearray)) or ds is None:
        res.violation('not-stored-in-file', 'C07.file', '%s: SOP class configured for file storage but '
                      'data set is %s' % (where, type(ds).__name__), case)
        return
    try:
        start = ds.tell()
        ds.seek(0)
        whole = ds.read()
        ds.seek(start)
        dcm = pydicom.dcmread(ds)
        meta = dcm.file_meta
        ds.close()
    except Exception as exc:
        res.violation('stored-file-unreadable', 'C07.file', '%s: %s: %s' % (where, type(exc).__name__, exc),
                      case)
        return
    want_ts = TS[case.get('ts', 'implicit')]
    cs = R.parse_command_set(command)
    if str(meta.TransferSyntaxUID) != want_ts:
        res.violation('stored-file-wrong-transfer-syntax', 'C07.file', '%s: meta TS %s, negotiated %s' % (
            where, meta.TransferSyntaxUID, want_ts), case)
    if str(meta.MediaStorageSOPClassUID) != cs.get(R.TAG_AFFECTED_SOP_CLASS) or \
            str(meta.MediaStorageSOPInstanceUID) != cs.get(R.TAG_AFFECTED_SOP_INSTANCE):
        res.violation('stored-file-wrong-uids', 'C07.file', '%s: meta UIDs %s / %s' % (
            where, meta.MediaStorageSOPClassUID, meta.MediaStorageSOPInstanceUID), case)
    if start != 0:
        res.violation('file-not-positioned-at-start', 'C07.file', '%s: file handed over at offset %d' % (
            where, start), case)
    if not whole.endswith(data) or whole[128:132] != b'DICM':
        res.violation('stored-file-content-differs', 'C07.file',
                      '%s: bytes after the meta header are not the transmitted data set' % where, case)
    else:
        # nothing but preamble + meta group before the data set
        head = whole[:len(whole) - len(data)]
        try:
            m = pydicom.filereader.read_file_meta_info(io.BytesIO(head + b''))
        except Exception:
            m = None


def mixed_reception(res, case, where, role, prefix, r):
    """One association receives a file-backed message, then a message whose data set stays in
    memory, then a file-backed one again: each is reassembled on its own."""
    from pynetdicom2 import applicationentity, asceprovider
    from pydicom import uid
    store_class = '1.2.840.10008.5.1.4.1.1.2'
    find_class = '1.2.840.10008.5.1.4.1.2.1.1'
    datas = [bytes(r.getrandbits(8) for _ in range(n)) for n in (40, 33, 57)]
    raws = []
    for k, (field, sop, ctx) in enumerate(((0x0001, store_class, 3), (0x0020, find_class, 5),
                                           (0x0001, store_class, 3))):
        fields = {R.TAG_AFFECTED_SOP_CLASS: sop, R.TAG_COMMAND_FIELD: field, R.TAG_MESSAGE_ID: 20 + k,
                  R.TAG_PRIORITY: 0, R.TAG_DATA_SET_TYPE: 0x0001}
        if field == 0x0001:
            fields[R.TAG_AFFECTED_SOP_INSTANCE] = '1.2.3.%d' % k
        pdvs = R.fragment(R.build_command_set(fields), datas[k], 30, ctx)
        raws += [R.build_pdu(t) for t in R.group_pdvs(pdvs, random_composition(r, len(pdvs)))]
    script, _ = c05.build_script(role, prefix)
    script += [('bytes', raw) for raw in raws]
    contexts = {3: asceprovider.PContextDef(3, uid.UID(store_class), uid.ImplicitVRLittleEndian),
                5: asceprovider.PContextDef(5, uid.UID(find_class), uid.ImplicitVRLittleEndian)}
    sim = simnet.Sim(role, script, store_in_file={store_class},
                     get_file_cb=applicationentity.ClientAE('C07').get_file, accepted_contexts=contexts)
    sim.run()
    res.count('oracle.file-then-memory-then-file')
    items = [o for o in sim.indication_objs if isinstance(o, tuple)]
    if sim.outcome != 'end-of-script' or len(items) != 3:
        res.violation('mixed-reception-fails', 'C07.provider', '%s: store (file), find (memory), store (file) '
                      'on one association: run() %s %s, %d messages delivered, indications %r' % (
                          where, sim.outcome, sim.error, len(items), [i[0] for i in sim.indications]), case)
        return
    problems = []
    for k, (msg, ctx) in enumerate(items):
        ds = msg.data_set
        if k == 1:
            if not isinstance(ds, (bytes, bytearray)) or bytes(ds) != datas[1]:
                problems.append('message 2 (in memory) carries %s' % (
                    type(ds).__name__ if not isinstance(ds, (bytes, bytearray)) else '%d other bytes' % len(ds)))
            continue
        try:
            ds.seek(0)
            whole = ds.read()
        except Exception as exc:
            problems.append('file of message %d unreadable: %s: %s' % (k + 1, type(exc).__name__, exc))
            continue
        if not whole.endswith(datas[k]) or whole[128:132] != b'DICM':
            problems.append('file of message %d does not end with its data set (%d bytes in the file)' % (
                k + 1, len(whole)))
    if problems:
        res.violation('mixed-reception-content', 'C07.provider', '%s: store (file), find (memory), store '
                      '(file) on one association: %s' % (where, '; '.join(problems)), case)


def across_release(res, case, where, raws, name, command, data, ctx, role, prefix):
    for cut in range(1, len(raws)):
        script, _ = c05.build_script(role, prefix)
        for raw in raws[:cut]:
            script.append(('bytes', raw))
        script.append(('user', F.user_primitive('uRELRQ')[0]))
        for raw in raws[cut:]:
            script.append(('bytes', raw))
        kwargs = {}
        sop = R.parse_command_set(command).get(R.TAG_AFFECTED_SOP_CLASS)
        file_backed = name == 'CStoreRQMessage' and data is not None and sop and cut % 2 == 1
        if file_backed:
            # the data set of this message is received into a file
            from pynetdicom2 import applicationentity, asceprovider
            from pydicom import uid
            kwargs = {'store_in_file': {sop}, 'get_file_cb': applicationentity.ClientAE('C07').get_file,
                      'accepted_contexts': {ctx: asceprovider.PContextDef(ctx, uid.UID(sop),
                                                                          uid.ImplicitVRLittleEndian)}}
            res.count('oracle.file-backed-across-release-request')
        sim = simnet.Sim(role, script, **kwargs)
        sim.run()
        if sim.outcome != 'end-of-script':
            res.violation('provider-run-failed', 'C07.provider', '%s, release requested after PDU %d: run() '
                          '%s %s' % (where, cut, sim.outcome, sim.error), case)
            return
        items = [o for o in sim.indication_objs if isinstance(o, tuple)]
        if len(items) != 1 or sim.state() + 1 != 7:
            res.violation('message-lost-across-release-request', 'C07.provider',
                          '%s: release requested after PDU %d of %d: %d message(s) delivered, state Sta%d, '
                          'indications %r' % (where, cut, len(raws), len(items), sim.state() + 1,
                                              [i[0] for i in sim.indications]), case)
            return
        if file_backed:
            ds = items[0][0].data_set
            try:
                ds.seek(0)
                whole = ds.read()
                ok = whole.endswith(data) and whole[128:132] == b'DICM'
            except Exception as exc:
                ok, whole = False, repr(exc).encode()
            if not ok:
                res.violation('stored-file-content-differs', 'C07.file',
                              '%s: release requested after PDU %d: the file handed over does not hold the '
                              'transmitted data set (%r)' % (where, cut, whole[:40]), case)
                return
            continue
        check_message(res, dict(case, kind='memory'), where + ' across a release request', items[0][0],
                      items[0][1], name, command, data, ctx)


def via_provider(res, case, where, raws, complete_at, name, command, data, ctx):
    """The same stream through the whole provider loop in Sta6 or Sta7."""
    role, prefix = ('acceptor', ['pRQ', 'uAC']) if case['state'] in ('Sta6', 'Sta6>7') else \
        ('requestor', ['pAC', 'uRELRQ'])
    script, _ = c05.build_script(role, prefix)
    base = len(script)
    for raw in raws:
        script.append(('bytes', raw))
    if case['state'] == 'Sta6>7':
        # the local user asks for release while the message is half received: its remainder
        # arrives in Sta7 and still completes the message
        if len(raws) < 2:
            return
        res.count('oracle.message-across-release-request')
        return across_release(res, case, where, raws, name, command, data, ctx, role, prefix)
    sim = simnet.Sim(role, script)
    sim.run()
    res.count('oracle.via-provider')
    if sim.outcome != 'end-of-script':
        res.violation('provider-run-failed', 'C07.provider', '%s in %s: run() %s %s' % (
            where, case['state'], sim.outcome, sim.error), case)
        return
    # number of DIMSE indications after each delivered PDU
    counts = []
    for k in range(len(raws)):
        snaps = [s for s in sim.trace if s['pos'] >= base + k + 1]
        ind_n = snaps[0]['ind_n'] if snaps else len(sim.indications)
        counts.append(sum(1 for i in sim.indications[:ind_n] if i[0] == 'DIMSE'))
    for k, c in enumerate(counts):
        want = 0 if k < complete_at else 1
        if k > complete_at:
            break
        if c != want:
            key = 'message-queued-early' if c > want and k < complete_at else (
                'message-queued-twice' if c > want else 'message-queued-late')
            res.violation(key, 'C07.provider', '%s in %s: %d message(s) on to_service_user after PDU %d, '
                          'last fragment in PDU %d' % (where, case['state'], c, k, complete_at), case)
            return
    items = [o for o in sim.indication_objs if isinstance(o, tuple)]
    if items:
        check_message(res, dict(case, kind='memory'), where + ' via provider', items[0][0], items[0][1],
                      name, command, data, ctx)
    if name == 'CStoreRQMessage' and case['state'] == 'Sta6':
        mixed_reception(res, case, where, role, prefix, rng(case['seed'], 'c07-mixed', case['nfrag'],
                                                             tuple(case['comp'])))
    # a second and a third message on the same association, in the same state: reassembly
    # state must start afresh for each of them
    r = rng(case['seed'], 'c07-second', name, case['nfrag'], tuple(case['comp']), case['state'])
    followers = []
    stream = list(raws)
    for k in range(2):
        other = dict(case, cls=r.choice(msgs.CLASS_NAMES), data=r.random() < 0.6,
                     nfrag=r.choice([2, 3, 4]), kind='memory', source='ref', long=None)
        built = build_fragments(other, r)
        if built is None:
            continue
        pdvs2, command2, data2, ctx2 = built
        comp2 = random_composition(r, len(pdvs2))
        raws2 = [R.build_pdu(t) for t in R.group_pdvs(pdvs2, comp2)]
        followers.append((len(stream), len(raws2), other['cls'], command2, data2, ctx2))
        stream += raws2
    if not followers:
        return
    script, _ = c05.build_script(role, prefix)
    base = len(script)
    for raw in stream:
        script.append(('bytes', raw))
    sim = simnet.Sim(role, script)
    sim.run()
    res.count('oracle.consecutive-messages')
    if sim.outcome != 'end-of-script':
        res.violation('provider-run-failed', 'C07.provider', '%s in %s + %d more messages: run() %s %s' % (
            where, case['state'], len(followers), sim.outcome, sim.error), case)
        return
    items = [o for o in sim.indication_objs if isinstance(o, tuple)]
    if len(items) != 1 + len(followers):
        res.violation('consecutive-messages-count', 'C07.provider',
                      '%s in %s followed by %r: %d messages delivered' % (
                          where, case['state'], [f[2] for f in followers], len(items)), case)
        return
    for (start, n, cls2, command2, data2, ctx2), item in zip(followers, items[1:]):
        # delivered exactly when its own last PDU has arrived
        snaps = [s for s in sim.trace if s['pos'] >= base + start + n]
        before = [s for s in sim.trace if s['pos'] >= base + start + n - 1]
        now = sum(1 for i in sim.indications[:(snaps[0]['ind_n'] if snaps else len(sim.indications))]
                  if i[0] == 'DIMSE')
        earlier = sum(1 for i in sim.indications[:before[0]['ind_n']] if i[0] == 'DIMSE') if n > 1 else None
        idx = items.index(item) + 1
        if now < idx or (earlier is not None and earlier >= idx):
            res.violation('message-queued-early' if earlier is not None and earlier >= idx
                          else 'message-queued-late', 'C07.provider',
                          '%s in %s: follow-up message %s delivered at the wrong PDU' % (
                              where, case['state'], cls2), case)
            return
        check_message(res, dict(case, kind='memory'), where + ' then ' + cls2 + ' via provider',
                      item[0], item[1], cls2, command2, data2, ctx2)
