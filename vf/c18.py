"""C18 - status codes are classified totally and consistently (exhaustive).

Every (code, response class) pair over all 65536 codes x (12 classes + none)
is constructed through the public ``statuses.Status`` and compared with a
classification table transcribed from PS3.7 Annex C / PS3.4 (C.4, B.2).
"""
from __future__ import annotations

from .common import Result

LEVEL = 'exploration'
ENGINE = 'exhaustive sweep'
TECHNIQUE = 'exhaustive runtime sweep of Status(code, command) against a classification table transcribed from PS3.7/PS3.4'
LEVEL_TEXT = ('the input space is finite (65536 codes x 13 command choices) and is enumerated completely on '
              'every run, each value observed through the public Status object; exhaustive exploration')
LEVEL_NOTE = ('trusts the transcribed table in vf/c18.py; codes the standard classifies differently from the '
              'library without the property saying so (0001H, 0107H, 0116H, FE00H) are only required to '
              'fall in exactly one class')
RULE = ('all 65536 codes x (12 message classes + no class); a pair is non-trivial when the oracle table '
        'expects something other than the default "unknown -> failure", distinct by (command, code)')
ASSUMPTIONS = ['status table of PS3.7 Annex C and PS3.4 B.2.3/C.4.1-C.4.3 as transcribed in this module']
REQUIRED = ['oracle.one-class', 'oracle.table', 'oracle.int', 'oracle.add-status', 'oracle.value-stable', 'oracle.constants']

COMMANDS = ['CEchoRSPMessage', 'CStoreRSPMessage', 'CFindRSPMessage', 'CGetRSPMessage',
            'CMoveRSPMessage', 'NEventReportRSPMessage', 'NGetRSPMessage', 'NSetRSPMessage',
            'NActionRSPMessage', 'NCreateRSPMessage', 'NDeleteRSPMessage', 'CCancelRQMessage', None]

GENERAL_FAILURE = {0x0105, 0x0106, 0x0110, 0x0111, 0x0112, 0x0113, 0x0114, 0x0115, 0x0117,
                   0x0118, 0x0119, 0x0120, 0x0121, 0x0122, 0x0123, 0x0124, 0x0210, 0x0211,
                   0x0212, 0x0213}
UNCONSTRAINED = {0x0001, 0x0107, 0x0116, 0xFE00}


def service_table(command):
    """code -> class for the service-specific codes of PS3.4."""
    t = {}

    def rng(lo, hi, cls):
        for c in range(lo, hi + 1):
            t[c] = cls
    if command == 'CStoreRSPMessage':
        rng(0xA700, 0xA7FF, 'Failure')
        rng(0xA900, 0xA9FF, 'Failure')
        rng(0xC000, 0xCFFF, 'Failure')
        t[0xB000] = t[0xB006] = t[0xB007] = 'Warning'
    elif command == 'CFindRSPMessage':
        t[0xA700] = t[0xA900] = 'Failure'
        rng(0xC000, 0xCFFF, 'Failure')
        t[0xFF00] = t[0xFF01] = 'Pending'
    elif command == 'CGetRSPMessage':
        t[0xA701] = t[0xA702] = t[0xA900] = 'Failure'
        rng(0xC000, 0xCFFF, 'Failure')
        t[0xB000] = 'Warning'
        t[0xFF00] = 'Pending'
    elif command == 'CMoveRSPMessage':
        t[0xA701] = t[0xA702] = t[0xA801] = t[0xA900] = 'Failure'
        rng(0xC000, 0xCFFF, 'Failure')
        t[0xB000] = 'Warning'
        t[0xFF00] = 'Pending'
    return t


def expected(code, table):
    if code == 0:
        return 'Success'
    if code in table:
        return table[code]
    if code in GENERAL_FAILURE:
        return 'Failure'
    if code in UNCONSTRAINED:
        return None
    return 'Failure'


def exhaustive(tier):
    return True


def plan(tier, seed):
    return [{'name': 'sweep', 'command': c} for c in COMMANDS] + [{'name': 'add-status'}]


FLAGS = {'Success': 'is_success', 'Pending': 'is_pending', 'Failure': 'is_failure',
         'Warning': 'is_warning', 'Cancel': 'is_cancel'}


def run_shard(spec, tier, seed):
    if spec['name'] == 'add-status':
        return add_status_shard()
    res = Result()
    for code in range(0x10000):
        check_case(res, {'command': spec['command'], 'code': code})
    check_constants(res, {'command': spec['command'], 'code': 0})
    return res


def replay(case):
    res = Result()
    if case.get('add_status'):
        return add_status_shard()
    check_case(res, case)
    return res


_tables = {}


def check_case(res, case):
    from pynetdicom2 import statuses, dimsemessages
    cname, code = case['command'], case['code']
    command = getattr(dimsemessages, cname) if cname else None
    if cname not in _tables:
        _tables[cname] = service_table(cname)
    table = _tables[cname]
    res.evaluations += 1
    try:
        st = statuses.Status(code, command)
    except Exception as exc:
        res.violation('status-raises', 'C18.construct', 'Status(0x%04X, %s) raised %r' % (
            code, cname, exc), case)
        return
    res.count('oracle.one-class')
    flags = [name for name, attr in FLAGS.items() if getattr(st, attr, None) is True]
    others = [attr for attr in FLAGS.values() if getattr(st, attr, None) not in (True, False)]
    if len(flags) != 1 or others:
        res.violation('not-exactly-one-class', 'C18.one-class',
                      'Status(0x%04X, %s): flags set = %r' % (code, cname, flags), case)
        return
    if st.status_type != flags[0]:
        res.violation('flags-disagree-with-type', 'C18.one-class',
                      'Status(0x%04X, %s): status_type %r but flag %r' % (
                          code, cname, st.status_type, flags[0]), case)
    res.count('oracle.table')
    want = expected(code, table)
    if want is not None:
        if want != 'Failure' or code in table or code in GENERAL_FAILURE:
            res.distinct.add('%s:%04X' % (cname, code))
        if flags[0] != want:
            if code == 0:
                key = 'zero-not-success'
            elif want == 'Pending':
                key = 'pending-code-not-pending'
            elif code in table:
                key = 'service-specific-code-misclassified'
            elif code in GENERAL_FAILURE:
                key = 'general-failure-code-misclassified'
            else:
                key = 'unknown-code-not-failure'
            res.violation(key, 'C18.table', 'Status(0x%04X, %s) is %s, the standard says %s' % (
                code, cname, flags[0], want), case)
    res.count('oracle.int')
    try:
        back = int(st)
    except Exception as exc:
        back = 'raised %r' % (exc,)
    if back != code:
        res.violation('int-differs', 'C18.int', 'int(Status(0x%04X, %s)) = %r' % (
            code, cname, back), case)
    # a status object is a value: building further objects (same code, other commands) or
    # anything else later must not change what this one says
    if command is not None and (code in table or code % 257 == 0):
        # the command is given as the response class, a subclass of it, or a message object
        res.count('oracle.command-given-otherwise')
        for how, cmd in (('subclass', type('Sub' + cname, (command,), {})), ('instance', command())):
            try:
                other = statuses.Status(code, cmd).status_type
            except Exception as exc:
                other = 'raised %r' % (exc,)
            if other != flags[0]:
                res.violation('classification-depends-on-how-the-command-is-given', 'C18.table',
                              'Status(0x%04X, %s) is %s, with a %s of that class it is %s' % (
                                  code, cname, flags[0], how, other), case)
    if code in table or code in GENERAL_FAILURE or code % 89 == 0 or want != 'Failure':
        res.count('oracle.value-stable')
        for other in COMMANDS:
            if other != cname:
                statuses.Status(code, getattr(dimsemessages, other) if other else None)
        again = [name for name, attr in FLAGS.items() if getattr(st, attr, None) is True]
        if again != flags or st.status_type != flags[0] or int(st) != code:
            res.violation('status-object-changes-afterwards', 'C18.one-class',
                          'Status(0x%04X, %s) was %s; after the same code was looked up for other commands '
                          'the same object says %r / %s' % (code, cname, flags[0], again, st.status_type), case)
    if code in (0x0000, 0xFF00, 0xB000, 0xC000, 0xA700, 0x0110, 0x1234):
        res.sample({'command': cname, 'code': '0x%04X' % code, 'status_type': st.status_type},
                   limit=8)


def add_status_shard():
    """The registration mechanism itself: inclusive ranges, command-specific
    entries taking precedence over general ones, neighbours untouched."""
    from pynetdicom2 import statuses, dimsemessages
    res = Result()
    case = {'add_status': True}
    store = dimsemessages.CStoreRSPMessage
    find = dimsemessages.CFindRSPMessage
    # looked up before they are registered (unknown -> Failure) ...
    early = [(c, cmd, statuses.Status(c, cmd).status_type) for c, cmd in (
        (0x3100, None), (0x3100, store), (0x3100, find), (0x3200, store), (0x3008, store))]
    for c, cmd, kind in early:
        res.count('oracle.add-status')
        if kind != 'Failure':
            res.violation('unknown-code-not-failure', 'C18.table', 'Status(0x%04X, %s) is %s before anything '
                          'is registered for it' % (c, getattr(cmd, '__name__', None), kind), case)
    statuses.add_status(0x3000, 'Warning', 'range test', end=0x3010, command=store)
    statuses.add_status(0x3100, 'Pending', 'general range', end=0x3101)
    statuses.add_status(0x3100, 'Cancel', 'specific wins', command=find)
    statuses.add_status(0x3200, 'Warning', 'single')
    # a type name that was computed (read from a configuration file, capitalised ...), not a literal
    statuses.add_status(0x3300, ''.join(['Can', 'cel']), 'computed type name', command=find)
    statuses.add_status(0x3301, 'warning'.capitalize(), 'computed type name')
    # another thread (an association's thread) looked the codes up before the registration and
    # looks them up again afterwards
    import threading
    go, done, seen = threading.Event(), threading.Event(), {}

    def other_thread():
        seen['before'] = [statuses.Status(c, cmd).status_type for c, cmd in ((0x3400, find), (0x3401, None))]
        done.set()
        go.wait(20)
        # (most recently looked-up code first)
        seen['after'] = [statuses.Status(c, cmd).status_type for c, cmd in ((0x3401, None), (0x3400, find))][::-1]
    th = threading.Thread(target=other_thread, daemon=True)
    th.start()
    done.wait(20)
    statuses.add_status(0x3400, 'Cancel', 'registered by the main thread', command=find)
    statuses.add_status(0x3401, 'Pending', 'registered by the main thread')
    go.set()
    th.join(20)
    res.count('oracle.add-status')
    if seen.get('before') != ['Failure', 'Failure'] or seen.get('after') != ['Cancel', 'Pending']:
        res.violation('registration-not-seen-by-other-thread', 'C18.add-status',
                      'a thread that had looked 0x3400/0x3401 up before they were registered sees %r '
                      'afterwards (before: %r)' % (seen.get('after'), seen.get('before')), case)
    # a range registered over codes that were registered singly before (and over built-in single
    # codes): after add_status(first, T, end=last) every code first..last is of type T on that level;
    # a single code registered inside a range afterwards changes that code only
    statuses.add_status(0x3500, 'Warning', 'single first', command=store)
    statuses.add_status(0x3500, 'Cancel', 'range later', end=0x350F, command=store)
    statuses.add_status(0x3505, 'Warning', 'single inside, later', command=store)
    statuses.add_status(0x3600, 'Warning', 'single first')
    statuses.add_status(0x35F0, 'Pending', 'range later', end=0x360F)
    statuses.add_status(0xB000, 'Cancel', 'range over built-in single codes', end=0xB0FF, command=store)
    probes = [
        (0x3500, store, 'Cancel'), (0x3504, store, 'Cancel'), (0x3505, store, 'Warning'),
        (0x3506, store, 'Cancel'), (0x350F, store, 'Cancel'), (0x3510, store, 'Failure'),
        (0x3600, None, 'Pending'), (0x35F0, None, 'Pending'), (0x360F, None, 'Pending'),
        (0x3610, None, 'Failure'), (0xB000, store, 'Cancel'), (0xB006, store, 'Cancel'),
        (0xB007, store, 'Cancel'), (0xB0FF, store, 'Cancel'), (0xB100, store, 'Failure'),
        (0xB000, find, 'Failure'),
        (0x3300, find, 'Cancel'), (0x3301, None, 'Warning'), (0x3301, store, 'Warning'),
        (0x2FFF, store, 'Failure'), (0x3000, store, 'Warning'), (0x3008, store, 'Warning'),
        (0x3010, store, 'Warning'), (0x3011, store, 'Failure'), (0x3000, find, 'Failure'),
        (0x3010, None, 'Failure'), (0x3100, None, 'Pending'), (0x3101, None, 'Pending'),
        (0x3102, None, 'Failure'), (0x3100, find, 'Cancel'), (0x3101, find, 'Pending'),
        (0x3100, store, 'Pending'), (0x3200, None, 'Warning'), (0x3200, store, 'Warning'),
        (0x3201, None, 'Failure'), (0x31FF, None, 'Failure'),
    ]
    for code, command, want in probes:
        res.evaluations += 1
        res.count('oracle.add-status')
        st = statuses.Status(code, command)
        res.distinct.add('add:%04X:%s' % (code, getattr(command, '__name__', None)))
        flags = [name for name, attr in FLAGS.items() if getattr(st, attr, None) is True]
        if flags != [st.status_type]:
            res.violation('not-exactly-one-class', 'C18.one-class',
                          'after add_status: Status(0x%04X, %s) of type %s has flags %r' % (
                              code, getattr(command, '__name__', None), st.status_type, flags), case)
        if st.status_type != want:
            res.violation('registered-range-misclassified', 'C18.add-status',
                          'after add_status: Status(0x%04X, %s) is %s, expected %s' % (
                              code, getattr(command, '__name__', None), st.status_type, want), case)
    check_constants(res, case)
    return res


def check_constants(res, case):
    """Library constants keep their documented meaning (also after everything else that was
    looked up in this process)."""
    from pynetdicom2 import statuses
    consts = {'SUCCESS': (0x0000, 'Success'), 'PROCESSING_FAILURE': (0x0110, 'Failure'),
              'C_STORE_CANNON_UNDERSTAND': (0xC000, 'Failure'),
              'C_STORE_OUT_OF_RESOURCES': (0xA700, 'Failure'),
              'C_STORE_ELEMENTS_DISCARDED': (0xB006, 'Warning'),
              'C_FIND_PENDING': (0xFF00, 'Pending'), 'C_FIND_PENDING_WARNING': (0xFF01, 'Pending'),
              'C_FIND_UNABLE_TO_PROCESS': (0xC000, 'Failure'),
              'C_FIND_OUT_OF_RESOURCES': (0xA700, 'Failure'), 'C_GET_PENDING': (0xFF00, 'Pending'),
              'C_GET_WARNING': (0xB000, 'Warning'), 'C_GET_UNABLE_TO_PROCESS': (0xC000, 'Failure'),
              'C_MOVE_PENDING': (0xFF00, 'Pending'), 'C_MOVE_WARNING': (0xB000, 'Warning'),
              'C_MOVE_UNABLE_TO_PROCESS': (0xC000, 'Failure'),
              'C_MOVE_DESTINATION_UNKNOWN': (0xA801, 'Failure')}
    for name, (code, want) in consts.items():
        st = getattr(statuses, name, None)
        if st is None:
            continue
        res.evaluations += 1
        res.count('oracle.constants')
        flags = [n for n, attr in FLAGS.items() if getattr(st, attr, None) is True]
        if int(st) != code or st.status_type != want or flags != [want]:
            res.violation('constant-misclassified', 'C18.constants',
                          'statuses.%s is (0x%04X, %s), documented (0x%04X, %s)' % (
                              name, int(st), st.status_type, code, want), case)
    return res
