"""Conversation corpus for the provider-level workloads (C03, C13).

A conversation is a list of steps seen from the library's side:
  ('peer', [pdu bytes, ...])  a burst the peer may send without waiting for us
  ('user', symbol)            the local user hands a primitive (fixtures.user_primitive)
  ('close',)                  the peer closes the transport connection
"""
from __future__ import annotations

from . import fixtures as F, refcodec as R


def _store_message(ctx, msg_id, size, max_len, instance):
    cmd = F.store_rq_command(msg_id, instance=instance)
    data = bytes((i * 7 + msg_id) % 251 for i in range(size))
    return R.fragment(cmd, data, max_len, ctx), data


def _pdus(pdvs, composition):
    return [R.build_pdu(t) for t in R.group_pdvs(pdvs, composition)]


def _comp(n):
    """composition of n PDVs into PDUs: 1, 2, 1, 2, ..."""
    out = []
    k = 1
    while n > 0:
        take = min(k, n)
        out.append(take)
        n -= take
        k = 3 - k
    return out


UNK_LONG = bytes([0x0A, 0, 0, 0, 0, 40]) + bytes(range(40))
INV_LONG = bytes([0x01, 0, 0, 0, 0, 60]) + b'\x00\x01' + b'X' * 58


def corpus():
    P = F.PEER
    rq_store = R.build_pdu(F.assoc_rq_tree(contexts=((1, F.VERIFICATION, (F.IMPLICIT,)),
                                                     (3, F.CT_STORAGE, (F.IMPLICIT, F.EXPLICIT)))))
    ac_store = R.build_pdu(F.assoc_ac_tree(contexts=((1, 0, F.IMPLICIT), (3, 0, F.IMPLICIT))))
    s1, _ = _store_message(3, 1, 40, 30, b'1.2.3.1')       # command + 2 data fragments
    s2, _ = _store_message(3, 2, 150, 38, b'1.2.3.2')      # 7+ fragments
    echo_rsp = F.pdata([F.pdv(1, 3, F.echo_rsp_command())])
    find_rsps = []
    for i in range(4):
        cmd = R.build_command_set({
            R.TAG_AFFECTED_SOP_CLASS: '1.2.840.10008.5.1.4.1.2.1.1', R.TAG_COMMAND_FIELD: 0x8020,
            R.TAG_MESSAGE_ID_RSP: 7, R.TAG_DATA_SET_TYPE: 0x0001, R.TAG_STATUS: 0xFF00})
        data = bytes([0x10, 0x00, 0x10, 0x00, 6, 0, 0, 0]) + b'NAME^%d' % i
        find_rsps += _pdus(R.fragment(cmd, data, 0, 1), [1, 1])
    final = R.build_command_set({
        R.TAG_AFFECTED_SOP_CLASS: '1.2.840.10008.5.1.4.1.2.1.1', R.TAG_COMMAND_FIELD: 0x8020,
        R.TAG_MESSAGE_ID_RSP: 7, R.TAG_DATA_SET_TYPE: 0x0101, R.TAG_STATUS: 0})
    find_rsps += _pdus(R.fragment(final, None, 0, 1), [1])
    convs = {
        'A1-echo': ('acceptor', [('peer', [P['pRQ']]), ('user', 'uAC'), ('peer', [P['pDATA']]),
                                 ('user', 'uDATA'), ('peer', [P['pRELRQ']]), ('user', 'uRELRP'),
                                 ('close',)]),
        'A2-store': ('acceptor', [('peer', [rq_store]), ('user', 'uAC'),
                                  ('peer', _pdus(s1, _comp(len(s1)))), ('user', 'uDATA'),
                                  ('peer', _pdus(s2, [1] * len(s2))), ('user', 'uDATA'),
                                  ('peer', [P['pRELRQ']]), ('user', 'uRELRP'), ('close',)]),
        'A3-peer-abort': ('acceptor', [('peer', [P['pRQ']]), ('user', 'uAC'),
                                       ('peer', [P['pDATA'], P['pABORT']])]),
        'A4-reject': ('acceptor', [('peer', [P['pRQ']]), ('user', 'uRJ'), ('close',)]),
        'A5-local-release': ('acceptor', [('peer', [P['pRQ']]), ('user', 'uAC'), ('user', 'uRELRQ'),
                                          ('peer', [P['pRELRP']])]),
        'A6-collision': ('acceptor', [('peer', [P['pRQ']]), ('user', 'uAC'), ('user', 'uRELRQ'),
                                      ('peer', [P['pRELRQ'], P['pRELRP']]), ('user', 'uRELRP'),
                                      ('close',)]),
        'A7-pipelined': ('acceptor', [('peer', [P['pRQ']]), ('user', 'uAC'),
                                      ('peer', [P['pDATA'], P['pPART'], P['pREST'], P['pRELRQ']]),
                                      ('user', 'uDATA'), ('user', 'uDATA'), ('user', 'uRELRP'),
                                      ('close',)]),
        'A8-local-abort': ('acceptor', [('peer', [P['pRQ']]), ('user', 'uAC'),
                                        ('peer', [P['pPART']]), ('user', 'uABORT'), ('close',)]),
        # a requestor may abort, or send its first request, without waiting for anything
        'A9-request-then-abort': ('acceptor', [('peer', [P['pRQ'], P['pABORT']])]),
        'A10-request-then-close': ('acceptor', [('peer', [P['pRQ']]), ('close',)]),
        'A11-request-then-data': ('acceptor', [('peer', [P['pRQ'], P['pDATA'], P['pRELRQ']]), ('close',)]),
        # PDUs the provider cannot recognise or decode, longer than what follows them
        'A12-invalid-then-abort': ('acceptor', [('peer', [P['pRQ']]), ('user', 'uAC'),
                                                ('peer', [UNK_LONG, P['pABORT']])]),
        'A13-invalid-twice': ('acceptor', [('peer', [P['pRQ']]), ('user', 'uAC'),
                                           ('peer', [INV_LONG, P['pUNK'], P['pRQ']]), ('close',)]),
        'A14-invalid-first': ('acceptor', [('peer', [INV_LONG, P['pABORT']])]),
        'R8-invalid-reply': ('requestor', [('peer', [UNK_LONG, P['pUNK'], P['pABORT']])]),
        'R1-echo': ('requestor', [('peer', [P['pAC']]), ('user', 'uDATA'), ('peer', [echo_rsp]),
                                  ('user', 'uRELRQ'), ('peer', [P['pRELRP']])]),
        'R2-find': ('requestor', [('peer', [ac_store]), ('user', 'uDATA2'), ('peer', find_rsps),
                                  ('user', 'uRELRQ'), ('peer', [P['pRELRP']])]),
        'R3-rejected': ('requestor', [('peer', [P['pRJ']])]),
        'R4-peer-abort': ('requestor', [('peer', [P['pAC']]), ('user', 'uDATA'),
                                        ('peer', [P['pABORT']])]),
        'R5-peer-release': ('requestor', [('peer', [P['pAC'], P['pRELRQ']]), ('user', 'uRELRP'),
                                          ('close',)]),
        'R6-collision': ('requestor', [('peer', [P['pAC']]), ('user', 'uRELRQ'),
                                       ('peer', [P['pRELRQ']]), ('user', 'uRELRP'),
                                       ('peer', [P['pRELRP']])]),
        'R7-local-abort': ('requestor', [('peer', [P['pAC']]), ('user', 'uABORT'), ('close',)]),
    }
    return convs


def peer_stream(steps):
    """[(step index, concatenated burst bytes, [pdu boundary offsets inside the burst])]"""
    out = []
    for i, step in enumerate(steps):
        if step[0] == 'peer':
            blob = b''.join(step[1])
            bounds = []
            pos = 0
            for pdu in step[1][:-1]:
                pos += len(pdu)
                bounds.append(pos)
            out.append((i, blob, bounds))
    return out


def total_peer_bytes(steps):
    return sum(len(b) for _, b, _ in peer_stream(steps))


def eof_point(steps):
    """Index of the peer burst that the peer's close follows directly (the
    last burst when nothing but the close comes after it), else None."""
    last = None
    for i, step in enumerate(steps):
        if step[0] == 'peer':
            rest = steps[i + 1:]
            if not rest or rest == [('close',)]:
                last = i
    return last


def with_final_close(steps):
    steps = list(steps)
    if not steps or steps[-1] != ('close',):
        steps.append(('close',))
    return steps


def build_script(role, steps, cuts=None, mode='pdu', eof_merge=False):
    """cuts: {step index: sorted offsets inside that burst}.  mode for bursts
    without explicit cuts: 'pdu' one PDU per segment, 'whole' burst at once,
    'bytes' one byte at a time.  eof_merge: the peer's close arrives together
    with the last segment of the burst it follows (steps must end with close)."""
    script = []
    expected = {}
    merge_at = eof_point(steps) if eof_merge else None
    if role == 'requestor':
        obj, raws = F.user_primitive('uRQ')
        script.append(('user', obj))
    for i, step in enumerate(steps):
        if step[0] == 'close' and merge_at is not None and i == merge_at + 1:
            continue
        if step[0] == 'peer':
            blob = b''.join(step[1])
            if cuts is not None and i in cuts:
                offs = cuts[i]
            elif mode == 'whole':
                offs = []
            elif mode == 'bytes':
                offs = list(range(1, len(blob)))
            else:
                offs = []
                pos = 0
                for pdu in step[1][:-1]:
                    pos += len(pdu)
                    offs.append(pos)
            prev = 0
            for o in list(offs) + [len(blob)]:
                if o > prev:
                    last = o == len(blob)
                    script.append(('bytes+close' if (last and i == merge_at) else 'bytes', blob[prev:o]))
                    prev = o
        elif step[0] == 'user':
            obj, raws = F.user_primitive(step[1])
            script.append(('user', obj))
        elif step[0] == 'both':
            # ('both', [pdus], symbol): the burst arrives and the user issues the primitive at once
            obj, raws = F.user_primitive(step[2])
            script.append(('both', ('bytes', b''.join(step[1])), obj))
        elif step[0] == 'close':
            script.append(('close',))
        elif step[0] == 'reset':
            script.append(('reset',))
        elif step[0] == 'time':
            script.append(('time', step[1]))
        elif step[0] == 'stop':
            script.append(('stop',))
    return script
