"""E3 - executable PS3.8 upper-layer protocol machine (Table 9-10, section 9.2)
with a small provider-level model on top (connection, ARTIM, half-received
DIMSE message).  Transcribed from the standard (DESIGN.md appendix A); knows
nothing about the implementation.
"""
from __future__ import annotations

ARTIM = 10.0

# event numbers as in the standard
EVT_NAMES = {
    1: 'A-ASSOCIATE request (user)', 2: 'transport connect confirm', 3: 'A-ASSOCIATE-AC PDU',
    4: 'A-ASSOCIATE-RJ PDU', 5: 'transport connect indication', 6: 'A-ASSOCIATE-RQ PDU',
    7: 'A-ASSOCIATE response accept (user)', 8: 'A-ASSOCIATE response reject (user)',
    9: 'P-DATA request (user)', 10: 'P-DATA-TF PDU', 11: 'A-RELEASE request (user)',
    12: 'A-RELEASE-RQ PDU', 13: 'A-RELEASE-RP PDU', 14: 'A-RELEASE response (user)',
    15: 'A-ABORT request (user)', 16: 'A-ABORT PDU', 17: 'transport closed',
    18: 'ARTIM expired', 19: 'unrecognised/invalid PDU'}


def _build_table():
    t = {}

    def row(evt, cells):
        for states, action in cells:
            if isinstance(states, int):
                states = [states]
            for s in states:
                t[(evt, s)] = action
    R = lambda a, b: list(range(a, b + 1))
    row(1, [(1, 'AE-1')])
    row(2, [(4, 'AE-2')])
    row(3, [(2, 'AA-1'), (3, 'AA-8'), (5, 'AE-3'), (R(6, 12), 'AA-8'), (13, 'AA-6')])
    row(4, [(2, 'AA-1'), (3, 'AA-8'), (5, 'AE-4'), (R(6, 12), 'AA-8'), (13, 'AA-6')])
    row(5, [(1, 'AE-5')])
    row(6, [(2, 'AE-6'), (3, 'AA-8'), (R(5, 12), 'AA-8'), (13, 'AA-7')])
    row(7, [(3, 'AE-7')])
    row(8, [(3, 'AE-8')])
    row(9, [(6, 'DT-1'), (8, 'AR-7')])
    row(10, [(2, 'AA-1'), (3, 'AA-8'), (5, 'AA-8'), (6, 'DT-2'), (7, 'AR-6'), (R(8, 12), 'AA-8'),
             (13, 'AA-6')])
    row(11, [(6, 'AR-1')])
    row(12, [(2, 'AA-1'), (3, 'AA-8'), (5, 'AA-8'), (6, 'AR-2'), (7, 'AR-8'), (R(8, 12), 'AA-8'),
             (13, 'AA-6')])
    row(13, [(2, 'AA-1'), (3, 'AA-8'), (5, 'AA-8'), (6, 'AA-8'), (7, 'AR-3'), (8, 'AA-8'),
             (9, 'AA-8'), (10, 'AR-10'), (11, 'AR-3'), (12, 'AA-8'), (13, 'AA-6')])
    row(14, [(8, 'AR-4'), (9, 'AR-9'), (12, 'AR-4')])
    row(15, [(3, 'AA-1'), (4, 'AA-2'), (R(5, 12), 'AA-1')])
    row(16, [(2, 'AA-2'), (3, 'AA-3'), (R(5, 12), 'AA-3'), (13, 'AA-2')])
    row(17, [(2, 'AA-5'), (3, 'AA-4'), (4, 'AA-4'), (R(5, 12), 'AA-4'), (13, 'AR-5')])
    row(18, [(2, 'AA-2'), (13, 'AA-2')])
    row(19, [(2, 'AA-1'), (3, 'AA-8'), (R(5, 12), 'AA-8'), (13, 'AA-7')])
    return t


TABLE = _build_table()
assert len(TABLE) == 123, len(TABLE)

# action -> (wire, indication, connection, timer, next state)
#   wire: None | 'user' (the user's primitive, byte for byte) | PDU kind
#   indication: None | kind
#   connection: None | 'connect' | 'close'
#   timer: None | 'start' | 'stop' | 'restart'
ACTIONS = {
    'AE-1': (None, None, 'connect', None, 4),
    'AE-2': ('user:A-ASSOCIATE-RQ', None, None, None, 5),
    'AE-3': (None, 'A-ASSOCIATE-AC', None, None, 6),
    'AE-4': (None, 'A-ASSOCIATE-RJ', 'close', None, 1),
    'AE-5': (None, None, None, 'start', 2),
    'AE-6': (None, 'A-ASSOCIATE-RQ', None, 'stop', 3),
    'AE-7': ('user:A-ASSOCIATE-AC', None, None, None, 6),
    'AE-8': ('user:A-ASSOCIATE-RJ', None, None, 'start', 13),
    'DT-1': ('user:P-DATA-TF', None, None, None, 6),
    'DT-2': (None, 'P-DATA', None, None, 6),
    'AR-1': ('A-RELEASE-RQ', None, None, None, 7),
    'AR-2': (None, 'A-RELEASE-RQ', None, None, 8),
    'AR-3': (None, 'A-RELEASE-RP', 'close', None, 1),
    'AR-4': ('A-RELEASE-RP', None, None, 'start', 13),
    'AR-5': (None, None, None, 'stop', 1),
    'AR-6': (None, 'P-DATA', None, None, 7),
    'AR-7': ('user:P-DATA-TF', None, None, None, 8),
    'AR-8': (None, 'A-RELEASE-RQ', None, None, 'collision'),   # 9 if requestor else 10
    'AR-9': ('A-RELEASE-RP', None, None, None, 11),
    'AR-10': (None, 'A-RELEASE-RP', None, None, 12),
    'AA-1': ('A-ABORT', None, None, 'restart', 13),
    'AA-2': (None, None, 'close', 'stop', 1),
    'AA-3': (None, 'A-ABORT:received', 'close', None, 1),
    'AA-4': (None, 'A-P-ABORT', None, None, 1),
    'AA-5': (None, None, None, 'stop', 1),
    'AA-6': (None, None, None, None, 13),
    'AA-7': ('A-ABORT', None, None, None, 13),
    'AA-8': ('A-ABORT:provider', 'A-P-ABORT', None, 'start', 13),
}

PDU_EVENT = {'A-ASSOCIATE-RQ': 6, 'A-ASSOCIATE-AC': 3, 'A-ASSOCIATE-RJ': 4, 'P-DATA-TF': 10,
             'A-RELEASE-RQ': 12, 'A-RELEASE-RP': 13, 'A-ABORT': 16, 'INVALID': 19}
USER_EVENT = {'A-ASSOCIATE-RQ': 1, 'A-ASSOCIATE-AC': 7, 'A-ASSOCIATE-RJ': 8, 'P-DATA-TF': 9,
              'A-RELEASE-RQ': 11, 'A-RELEASE-RP': 14, 'A-ABORT': 15}

# user primitives the standard allows in each state (defined cells of user events)
LEGAL_USER = {}
for (_evt, _sta) in TABLE:
    for _name, _e in USER_EVENT.items():
        if _e == _evt:
            LEGAL_USER.setdefault(_sta, []).append(_name)


class Effects(object):
    __slots__ = ('wire', 'indications', 'closed', 'timer', 'state', 'cell', 'action')

    def __init__(self):
        self.wire = []
        self.indications = []


class Machine(object):
    """Provider-level model: protocol machine + connection + ARTIM + DIMSE reassembly flag."""

    def __init__(self, role):
        self.role = role
        self.state = 1
        self.conn_open = False
        self.timer_deadline = None
        self.now = 0.0
        self.partial = False          # DIMSE message half received
        self.indicated = False        # association indicated/confirmed to the user
        self.over = False             # association ended (user told / never existed any more)
        self.wire = []
        self.indications = []
        self.cells = []
        if role == 'acceptor':
            self.conn_open = True
            self.fire(5)

    # ---- helpers
    @property
    def timer_running(self):
        return self.timer_deadline is not None

    def closed(self):
        return not self.conn_open

    def fire(self, evt, **info):
        key = (evt, self.state)
        action = TABLE.get(key)
        self.cells.append((evt, self.state, action))
        if action is None:
            raise UndefinedCell(evt, self.state)
        wire, ind, conn, timer, nxt = ACTIONS[action]
        if wire is not None:
            if wire.startswith('user:'):
                self.wire.append(('user', wire[5:], info.get('primitive')))
            elif wire == 'A-ABORT:provider':
                self.wire.append(('A-ABORT', 'provider'))
            elif wire == 'A-ABORT':
                if evt == 15:
                    self.wire.append(('user', 'A-ABORT', info.get('primitive')))
                else:
                    self.wire.append(('A-ABORT', 'any'))
            else:
                self.wire.append((wire,))
        if ind is not None:
            if ind == 'P-DATA':
                # the library reassembles: the user sees the message when it is complete
                if info.get('completes'):
                    self.indications.append(('DIMSE',))
                    self.partial = False
                else:
                    self.partial = True
            elif ind == 'A-ABORT:received':
                self.indications.append(('A-ABORT',) + tuple(info.get('abort', ())))
            elif ind == 'A-P-ABORT':
                self.indications.append(('A-ABORT', 'any'))
            elif ind == 'A-ASSOCIATE-RJ':
                self.indications.append(('A-ASSOCIATE-RJ',) + tuple(info.get('rj', ())))
            else:
                self.indications.append((ind,))
        if conn == 'connect':
            self.conn_open = True
        elif conn == 'close':
            self.conn_open = False
        if timer in ('start', 'restart'):
            self.timer_deadline = self.now + ARTIM
        elif timer == 'stop':
            self.timer_deadline = None
        if nxt == 'collision':
            nxt = 9 if self.role == 'requestor' else 10
        self.state = nxt
        if action == 'AE-1':
            self.fire(2, **info)       # connect confirmation follows at once
        return action

    # ---- stimuli
    def peer_pdu(self, kind, **info):
        """kind in PDU_EVENT.  Returns False when nothing can arrive (closed)."""
        if not self.conn_open:
            return False
        self.fire(PDU_EVENT[kind], **info)
        return True

    def peer_close(self):
        if not self.conn_open:
            return False
        self.conn_open = False
        self.fire(17)
        return True

    def advance(self, dt):
        self.now += dt
        if self.timer_deadline is not None and self.now > self.timer_deadline:
            self.fire(18)

    def user(self, kind, **info):
        self.fire(USER_EVENT[kind], **info)

    def legal_user(self):
        return list(LEGAL_USER.get(self.state, []))


class UndefinedCell(Exception):
    def __init__(self, evt, state):
        Exception.__init__(self, 'Evt%d undefined in Sta%d' % (evt, state))
        self.evt = evt
        self.state = state
