"""C16 - C-FIND returns exactly the matches the SCP produced, in order, then
stops.

Full stack over real loopback TCP with real threads (E5).  Every match carries
a unique identifier, so the history seen by the query user identifies which
response it observed.  Variants: library SCU <-> library SCP; library SCP <->
reference-peer SCU (responses counted on the wire); library SCU <->
reference-peer SCP ending with success / failure / cancel; modality worklist
callables; the one-call ``c_find`` wrapper.  Provider threads are slowed down
by seeded jitter so that "the sender runs ahead of its provider thread" is the
common schedule.
"""
from __future__ import annotations

import time

from . import refcodec as R, tcpnet, svc
from .common import Result, rng, chunked

LEVEL = 'exploration'
ENGINE = 'tcpnet'
TECHNIQUE = ('sequence-equality checker over unambiguous histories (unique match ids) recorded at the client boundary, '
             'full stack on loopback TCP with real threads and seeded delay injection in the provider threads')
LEVEL_TEXT = ('result sequences of length 0..40 x pending codes x three transfer syntaxes x PDU sizes forcing '
              'multi-fragment responses x five peer arrangements, under delay-diversified schedules; a sample of inputs '
              'and of OS interleavings (distinct interleaving signatures are counted in the evidence)')
LEVEL_NOTE = ('real-thread tier: only the interleavings the OS and the injected delays produce are seen; a library '
              'time-out is re-run alone before it counts')
RULE = ('case = (variant, result sequence, transfer syntax, PDU sizes, delay profile); distinct = (variant, length, '
        'status pattern, ts, sizes); non-trivial = at least one match or a non-success final status')
ASSUMPTIONS = ['pydicom encodes/decodes the match data sets consistently on both sides']
REQUIRED = ['oracle.sequence-equal', 'oracle.query-unchanged', 'oracle.one-final', 'oracle.wire-count',
            'oracle.handler-gives-up', 'sim.status-form-status-plain', 'sim.status-form-status-other-command']

N = {'quick': 320, 'thorough': 8000}
VARIANTS = ['lib-lib', 'lib-lib', 'lib-scp-refpeer-scu', 'lib-scu-refpeer-scp', 'mwl', 'c_find']
TS = ['1.2.840.10008.1.2', '1.2.840.10008.1.2.1', '1.2.840.10008.1.2.2']
MAX_PARALLEL = 16


OPTIMIZED_SAMPLE = 1     # the first shard once more under python -O (vf/runner.py)


def exhaustive(tier):
    return False


def plan(tier, seed):
    return [{'lo': p[0], 'hi': p[-1] + 1} for p in chunked(range(N[tier]), 16) if p]


def run_shard(spec, tier, seed):
    res = Result()
    sigs = set()
    for i in range(spec['lo'], spec['hi']):
        run_case(res, {'index': i, 'seed': seed}, sigs)
    res.notes['interleaving_signatures'] = sorted(sigs)[:400]
    return res


def replay(case):
    res = Result()
    run_case(res, case, set())
    return res


def make_matches(r, i, n):
    import pydicom
    out = []
    for k in range(n):
        ds = pydicom.Dataset()
        if r.random() < 0.12:
            # a match with an empty identifier: transmitted without a data set
            out.append((ds, r.choice([0xFF00, 0xFF01])))
            continue
        ds.PatientName = 'MATCH^%d^%d' % (i, k)
        ds.PatientID = 'ID-%d-%d' % (i, k)
        ds.StudyDescription = 'x' * r.choice([0, 3, 40, 300])
        out.append((ds, r.choice([0xFF00, 0xFF00, 0xFF01])))
    return out


STATUS_FORMS = ['int', 'int', 'constant', 'status-find', 'status-plain', 'status-other-command']


def status_in_form(code, form):
    """The ways an application may hand a pending status to the provider."""
    from pynetdicom2 import statuses, dimsemessages
    if form == 'constant':
        return statuses.C_FIND_PENDING if code == 0xFF00 else statuses.C_FIND_PENDING_WARNING
    if form == 'status-find':
        return statuses.Status(code, dimsemessages.CFindRSPMessage)
    if form == 'status-plain':
        return statuses.Status(code)
    if form == 'status-other-command':
        return statuses.Status(code, dimsemessages.CGetRSPMessage)
    return code


def failing_results(results, after):
    """The application gives up after `after` matches (documented way: EventHandlingError)."""
    from pynetdicom2 import exceptions
    for k, item in enumerate(results):
        if k == after:
            break
        yield item
    raise exceptions.EventHandlingError('the database went away')


class Pair(object):
    """A two-item sequence that is neither tuple nor list."""

    def __init__(self, items):
        self._items = tuple(items)

    def __iter__(self):
        return iter(self._items)

    def __len__(self):
        return 2

    def __getitem__(self, k):
        return self._items[k]


def handler_results(matches, reuse):
    """What on_receive_find hands to the provider: the matches themselves, or - the way a
    'for row in cursor' application does - ONE data set object refilled for every match."""
    import pydicom
    if not reuse:
        return iter(matches)

    def gen():
        shared = pydicom.Dataset()
        for ds, st in matches:
            shared.clear()
            shared.update(ds)
            yield shared, st
    return gen()


def pad_to_multiple(ds, enc, chunk):
    """Pad the data set with a comment so that its encoding is k * chunk bytes long."""
    if chunk < 2:
        return False
    for k in range(0, 2 * chunk + 2, 2):
        ds.ImageComments = 'p' * k
        if len(enc(ds)) % chunk == 0:
            return True
    del ds.ImageComments
    return False


def run_case(res, case, sigs, attempt=0):
    from pynetdicom2 import applicationentity, sopclass, exceptions
    import pynetdicom2
    import pydicom
    from pynetdicom2 import dsutils
    from pydicom import uid
    t0 = time.monotonic()
    i, seed = case['index'], case['seed']
    r = rng(seed, 'c16', i)
    variant = VARIANTS[i % len(VARIANTS)]
    n = r.choice([0, 1, 2, 3, 5, 8, 13, 40]) if r.random() < 0.8 else r.randrange(0, 41)
    ts = TS[(i // len(VARIANTS)) % 3]
    server_max = r.choice([64, 128, 1024, 16384, 65536])
    client_max = r.choice([64, 256, 16384, 65536])
    jitter = r.choice([0.0, 0.002, 0.004]) * (0 if attempt else 1)
    matches = make_matches(r, i, n)
    msg_id = r.choice([1, 2, 0x7FFF, 0xFFFF, r.randrange(1, 65536)])
    query = pydicom.Dataset()
    query.PatientName = 'Q^%d*' % i
    query.PatientID = ''
    query.QueryRetrieveLevel = 'PATIENT'
    u = uid.UID(ts)
    enc = lambda ds: dsutils.encode(ds, u.is_implicit_VR, u.is_little_endian)
    # some matches (and sometimes the query) are sized to an exact multiple of the sender's
    # fragment size: the boundary where "is this the last fragment" is decided
    chunk = min(server_max, client_max) - 6
    exact = 0
    for ds, st in matches:
        if len(ds) and r.random() < 0.3 and pad_to_multiple(ds, enc, chunk):
            exact += 1
    if r.random() < 0.2:
        pad_to_multiple(query, enc, chunk)
    want = [(enc(ds) or None, st) for ds, st in matches]
    reuse = r.random() < 0.3
    form = r.choice(STATUS_FORMS)
    lib_scp = variant in ('lib-lib', 'mwl', 'c_find', 'lib-scp-refpeer-scu')
    raise_after = r.randrange(0, n + 1) if (lib_scp and r.random() < 0.15) else None
    if raise_after is not None:
        want = want[:raise_after]
    # both Query/Retrieve roots; the wrapper is called with the same local AE title for either
    study_root = variant != 'mwl' and (i // len(VARIANTS)) % 2 == 1
    res.evaluations += 1 if not attempt else 0
    res.distinct.add('%s|%d|%s|%s|%d|%d' % (variant, n, ''.join(str(s & 1) for _, s in matches), ts[-1],
                                            server_max, client_max))
    net = tcpnet.Net(seed=seed * 100003 + i, jitter=jitter, delay=r.choice([0, 0, 0.001]))
    where = '%s n=%d ts=%s server_max=%d client_max=%d jitter=%s statuses-as=%s gives-up-after=%s root=%s' % (
        variant, n, ts, server_max, client_max, jitter, form, raise_after, 'study' if study_root else 'patient')
    seen_queries = []
    got = None
    error = None
    wire_count = None
    final_kind = 0x0000
    sop = svc.MWL if variant == 'mwl' else ('1.2.840.10008.5.1.4.1.2.2.1' if study_root else svc.FIND)
    res.count('sim.status-form-' + form if lib_scp else 'sim.reference-scp')
    if raise_after is not None:
        res.count('oracle.handler-gives-up')
    with tcpnet.instrument(net):
        try:
            if variant in ('lib-lib', 'mwl', 'c_find', 'lib-scp-refpeer-scu'):
                class Server(tcpnet.TapServerMixin, applicationentity.AE):
                    def on_receive_find(self, context, ds):
                        seen_queries.append(enc(ds))
                        if raise_after == 0 and i % 2:
                            # a handler written as a plain method: it fails before it returns anything
                            raise exceptions.EventHandlingError('the database is away')
                        # a match is a pair: tuple, list or any other two-item sequence
                        pair = (tuple, list, Pair)[i % 3]
                        results = (pair((d, status_in_form(st, form))) for d, st in handler_results(matches, reuse))
                        return results if raise_after is None else failing_results(results, raise_after)
                server = Server('FINDSCP', 0, supported_ts=[ts], max_pdu_length=server_max)
                server.net = net
                server.timeout = 5 if not attempt else 30        # (re-runs are patient)
                server.add_scp(sopclass.modality_work_list_scp if variant == 'mwl'
                               else sopclass.qr_find_scp)
                if i % 4 == 1:
                    # the entity also stores images (file-backed), registered after the query service
                    server.add_scp(sopclass.storage_scp)
                with tcpnet.serving(server):
                    remote = {'aet': 'FINDSCP', 'address': '127.0.0.1', 'port': server.port}
                    if variant == 'lib-scp-refpeer-scu':
                        peer = tcpnet.RefPeer.connect(server.port, timeout=5.0 if not attempt else 30.0)
                        try:
                            reply = peer.associate([(1, sop.encode(), (ts.encode(),))], max_len=client_max)
                            peer.send_dimse(1, {R.TAG_AFFECTED_SOP_CLASS: sop, R.TAG_COMMAND_FIELD: 0x0020,
                                                R.TAG_MESSAGE_ID: msg_id, R.TAG_PRIORITY: 0}, enc(query))
                            pipelined = i % 2 == 0
                            msg_id2 = (msg_id + 1) % 65536
                            if pipelined:
                                # a second request follows at once, before any response was read
                                peer.send_dimse(1, {R.TAG_AFFECTED_SOP_CLASS: sop, R.TAG_COMMAND_FIELD: 0x0020,
                                                    R.TAG_MESSAGE_ID: msg_id2, R.TAG_PRIORITY: 0}, enc(query))
                                res.count('sim.second-request-pipelined')
                            got = []
                            wire_count = 0
                            while True:
                                item = peer.recv_dimse()
                                if isinstance(item, dict):
                                    raise AssertionError('unexpected PDU %r' % item)
                                ctx, cmd, data, lengths, problems = item
                                wire_count += 1
                                st = cmd.get(R.TAG_STATUS)
                                if cmd.get(R.TAG_MESSAGE_ID_RSP) != msg_id or ctx != 1 or problems:
                                    raise AssertionError('response %r on ctx %r: %r' % (cmd, ctx, problems))
                                if any(l > client_max for l in lengths):
                                    raise AssertionError('P-DATA-TF longer than announced %d: %r' % (
                                        client_max, lengths))
                                got.append((data or None, st))
                                if st not in (0xFF00, 0xFF01):
                                    break
                            if pipelined:
                                # the second request is an operation of its own: answered after the
                                # first, with its own id, with what the handler produces for it
                                got2 = []
                                while True:
                                    item = peer.recv_dimse()
                                    if isinstance(item, dict):
                                        raise AssertionError('second request: unexpected PDU %r' % item)
                                    ctx, cmd, data, lengths, problems = item
                                    if cmd.get(R.TAG_MESSAGE_ID_RSP) != msg_id2 or ctx != 1 or problems:
                                        raise AssertionError('second request: response %r on ctx %r: %r' % (
                                            cmd, ctx, problems))
                                    got2.append((data or None, cmd.get(R.TAG_STATUS)))
                                    if got2[-1][1] not in (0xFF00, 0xFF01):
                                        break
                                if got2 != got or seen_queries[1:] != seen_queries[:1]:
                                    raise AssertionError('second pipelined request answered with %d responses '
                                                         '(first: %d); handler saw %d queries' % (
                                                             len(got2), len(got), len(seen_queries)))
                                del seen_queries[1:]
                            peer.release()
                        finally:
                            peer.close()
                    elif variant == 'c_find':
                        gen = pynetdicom2.c_find(remote, 'WRAPPER', query, sop)
                        got = [(enc(d) if d is not None else None, int(s)) for d, s in gen]
                    else:
                        client = applicationentity.ClientAE('FINDSCU', supported_ts=[ts],
                                                            max_pdu_length=client_max)
                        client.timeout = 5 if not attempt else 30
                        client.add_scu(sopclass.modality_work_list_scu if variant == 'mwl'
                                       else sopclass.qr_find_scu)
                        with client.request_association(remote) as assoc:
                            service = assoc.get_scu(sop)
                            got = [(enc(d) if d is not None else None, int(s))
                                   for d, s in service(query, msg_id)]
                    errs = getattr(server, 'handler_errors', [])
                    if errs:
                        error = errs[0]
            else:
                # library SCU against a reference SCP ending with success / failure / cancel
                final_kind = r.choice([0x0000, 0xA700, 0xC001, 0xFE00])
                r3 = rng(seed, 'c16-refscp', i)
                # Affected SOP Class UID is optional in a C-FIND-RSP (PS3.7 Table 9.1-2: U(=))
                omit_class = r3.random() < 0.3
                # a provider that hangs up right after its final response, and a user that is slow to
                # pick the responses up: what has arrived is still delivered
                hangs_up = r3.random() < 0.3
                if omit_class:
                    res.count('sim.responses-without-affected-sop-class')
                if hangs_up:
                    res.count('sim.provider-hangs-up-after-final')

                def rsp_fields(cmd, status):
                    fields = {R.TAG_AFFECTED_SOP_CLASS: sop, R.TAG_COMMAND_FIELD: 0x8020,
                              R.TAG_MESSAGE_ID_RSP: cmd[R.TAG_MESSAGE_ID], R.TAG_STATUS: status}
                    if omit_class:
                        del fields[R.TAG_AFFECTED_SOP_CLASS]
                    return fields

                def handler(peer):
                    peer.accept(max_len=server_max)
                    ctx, cmd, data, lengths, problems = peer.recv_dimse()
                    seen_queries.append(data)
                    for k, (raw, st) in enumerate(want):
                        # "data set present" is any Command Data Set Type but 0101H
                        peer.send_dimse(ctx, rsp_fields(cmd, st), raw,
                                        data_set_type=[0x0001, 0x0000, 0x0102, 0x0001, 0xFFFF][(i + k) % 5])
                    peer.send_dimse(ctx, rsp_fields(cmd, final_kind))
                    if hangs_up:
                        peer.close()
                        return 0
                    nxt = peer.recv_pdu()
                    if nxt['type'] == 5:
                        peer.send_pdu({'type': 6})
                    return nxt['type']
                srv = tcpnet.PeerServer(handler, timeout=5.0 if not attempt else 30.0)
                try:
                    client = applicationentity.ClientAE('FINDSCU', supported_ts=[ts],
                                                        max_pdu_length=client_max)
                    client.timeout = 5 if not attempt else 30
                    client.add_scu(sopclass.qr_find_scu)
                    remote = {'aet': 'REFSCP', 'address': '127.0.0.1', 'port': srv.port}
                    collected = []
                    try:
                        with client.request_association(remote) as assoc:
                            service = assoc.get_scu(sop)
                            if hangs_up:
                                time.sleep(0.3)
                            for d, s in service(query, msg_id):
                                collected.append((enc(d) if d is not None else None, int(s)))
                    except exceptions.NetDICOMError:
                        # (how the context manager leaves an association the peer has already dropped
                        # is C14's subject: here only what was delivered counts)
                        if not (hangs_up and len(collected) == len(want) + 1):
                            raise
                    got = collected
                finally:
                    srv.close()
                if srv.errors:
                    error = AssertionError(srv.errors[0])
        except Exception as exc:
            error = exc
    tcpnet.wait_quiet(0, 3.0)
    sigs.add(net.signature())
    if error is not None and attempt < 2 and (tcpnet.is_timeout(error) or time.monotonic() - t0 >= 4.0):
        # a failure on a loaded machine is not a verdict yet (one side's 5 s time-out reaches the other
        # side as an abort or a closed connection): a failure that took that long is re-run alone, without
        # delays and with patient time-outs; what persists is reported.  A quick failure is no time-out.
        res.count('flaky-timeouts')
        return run_case(res, case, sigs, attempt + 1)
    res.sample({'case': case, 'variant': variant, 'n': n, 'statuses': ['%04X' % s for _, s in matches][:6],
                'received': len(got) if got is not None else None}, limit=5)
    if error is not None:
        key = 'find-raises:' + type(error).__name__
        res.violation(key, 'C16.run', '%s: %s: %s' % (where, type(error).__name__, error), case)
        return
    res.count('oracle.sequence-equal')
    pend = [(d, s) for d, s in got if s in (0xFF00, 0xFF01)]
    finals = [(d, s) for d, s in got if s not in (0xFF00, 0xFF01)]
    if pend != want:
        n_equal = sum(1 for a, b in zip(pend, want) if a == b)
        if len(pend) != len(want):
            key = 'match-count-differs'
        elif sorted(pend, key=repr) == sorted(want, key=repr):
            key = 'matches-out-of-order'
        elif [s for _, s in pend] != [s for _, s in want] and [d for d, _ in pend] == [d for d, _ in want]:
            key = 'pending-status-altered'
        else:
            key = 'match-content-differs'
        first_bad = next((k for k, (a, b) in enumerate(zip(pend, want)) if a != b), min(len(pend), len(want)))
        res.violation(key, 'C16.sequence', '%s: %d pending results, %d produced, first difference at #%d '
                      '(%d equal); got names %r' % (where, len(pend), len(want), first_bad, n_equal,
                                                    _names(pend, u)[:6]), case)
    res.count('oracle.one-final')
    if len(finals) != 1 or (got and got[-1][1] in (0xFF00, 0xFF01)):
        res.violation('final-response-count', 'C16.final', '%s: %d non-pending responses %r' % (
            where, len(finals), ['%04X' % s for _, s in got][-4:]), case)
    elif raise_after is not None:
        if finals[0][1] == 0x0000:
            res.violation('final-status-altered', 'C16.final', '%s: the application gave up after %d matches, '
                          'final status Success' % (where, raise_after), case)
    elif finals[0][1] != final_kind:
        res.violation('final-status-altered', 'C16.final', '%s: final status %04X, SCP sent %04X' % (
            where, finals[0][1], final_kind), case)
    res.count('oracle.query-unchanged')
    if seen_queries != [enc(query)]:
        res.violation('query-altered', 'C16.query', '%s: handler saw %d queries, equal to the one sent: %r' % (
            where, len(seen_queries), [q == enc(query) for q in seen_queries]), case)
    if wire_count is not None:
        res.count('oracle.wire-count')
        if wire_count != len(want) + 1:
            res.violation('wire-response-count', 'C16.wire', '%s: %d C-FIND-RSP on the wire, %d expected' % (
                where, wire_count, n + 1), case)
    else:
        res.count('oracle.wire-count', 0)


def _names(pairs, u):
    from pynetdicom2 import dsutils
    out = []
    for raw, st in pairs:
        try:
            out.append(str(dsutils.decode(raw, u.is_implicit_VR, u.is_little_endian).PatientName))
        except Exception:
            out.append('?')
    return out
