"""C17 - every SCP response correlates with its request (message id, UIDs,
context, type, status) and every request is answered.

Each provider callable of sopclass.py is invoked directly with a real
``Association`` whose provider is the recording stub (E4), so that responses
go through the real ``Association.send``; what was sent is read by the
independent command-set reader and compared with the request.
"""
from __future__ import annotations

from . import refcodec as R, stubdul, svc
from .common import Result, rng, chunked

LEVEL = 'exploration'
ENGINE = 'stubdul+refcodec'
TECHNIQUE = ('runtime monitor on the responses each service provider passes to Association.send, decoded from their '
             'wire form by an independent command-set reader and correlated with the request')
LEVEL_TEXT = ('every provider callable x boundary and random message ids x UID lengths x context ids x one handler '
              'status of every class and EventHandlingError; seeded sample of an unbounded input space')
LEVEL_NOTE = ('for C-FIND / C-MOVE / N-EVENT-REPORT no failure status is documented for EventHandlingError: any '
              'failure-class status is accepted, a missing response is not')
RULE = ('case = (provider, message id, UIDs, context id, handler outcome); distinct = (provider, id class, outcome, '
        'context id); non-trivial = every case (each must produce at least one response)')
ASSUMPTIONS = ['requests are delivered as the provider delivers them: message objects built from a decoded command set']
REQUIRED = ['oracle.response-correlates', 'oracle.request-answered', 'oracle.status-carried']

PROVIDERS = ['echo', 'store', 'store-file', 'find', 'mwl', 'move', 'n-action', 'n-event-report', 'get-store']
IDS = [0, 1, 2, 0x7FFF, 0x8000, 0xFFFE, 0xFFFF]
N = {'quick': 3000, 'thorough': 400000}


OPTIMIZED_SAMPLE = 1     # the first shard once more under python -O (vf/runner.py)


def exhaustive(tier):
    return False


def plan(tier, seed):
    return [{'lo': p[0], 'hi': p[-1] + 1} for p in chunked(range(N[tier]), 16) if p]


def run_shard(spec, tier, seed):
    res = Result()
    for i in range(spec['lo'], spec['hi']):
        run_case(res, {'index': i, 'seed': seed})
    return res


def replay(case):
    res = Result()
    run_case(res, case)
    return res


class Raise(object):
    pass


OUTCOMES = {
    'echo': [0x0000, 0x0122, 0x0210, 0x0211, Raise],
    'store': [0x0000, 0xB000, 0xB006, 0xA700, 0xA9FF, 0xC000, 0xCFFF, 0x0124, Raise],
    'store-file': [0x0000, 0xB007, 0xA701, Raise],
    'find': [0xFF00, 0xFF01, Raise],
    'mwl': [0xFF00, 0xFF01, Raise],
    'move': [0x0000, 0xB000, 0xA702, Raise],
    'n-action': [0x0000, Raise],
    'n-event-report': [0x0000, Raise],
    'get-store': [0x0000, 0xB000, 0xA700, 0xC001, Raise],
}


def run_case(res, case):
    from pynetdicom2 import applicationentity, asceprovider, exceptions, sopclass, statuses
    import pydicom
    from pynetdicom2 import dsutils
    i, seed = case['index'], case['seed']
    r = rng(seed, 'c17', i)
    provider = PROVIDERS[i % len(PROVIDERS)]
    msg_id = IDS[(i // len(PROVIDERS)) % len(IDS)] if r.random() < 0.6 else r.randrange(65536)
    pc_id = r.choice([1, 3, 5, 127, 253, 255, 2 * r.randrange(128) + 1])
    outcome = r.choice(OUTCOMES[provider])
    raises = outcome is Raise
    as_int = r.random() < 0.3
    from . import gen
    instance = (gen.rand_uid(r, r.choice([5, 12, 13, 40, 63, 64])).decode().strip('.') or '1.2')
    res.evaluations += 1
    res.distinct.add('%s|%s|%s|%d' % (provider, msg_id if msg_id in IDS else 'rnd',
                                      'raise' if raises else hex(outcome), pc_id))
    case = dict(case, provider=provider, msg_id=msg_id, pc_id=pc_id,
                outcome='EventHandlingError' if raises else outcome)
    record = {'handler_calls': 0}

    def status_value(code, command=None):
        return code if as_int else statuses.Status(code, command)

    def handler_result(code=None, command=None):
        record['handler_calls'] += 1
        if raises:
            raise exceptions.EventHandlingError('handler failed')
        return status_value(outcome if code is None else code, command)

    matches = r.choice([0, 1, 2, 4])
    find_results = []
    for k in range(matches):
        ds = pydicom.Dataset()
        ds.PatientName = 'MATCH^%d^%d' % (i, k)
        find_results.append((ds, r.choice([0xFF00, 0xFF01])))
    nsub = r.choice([0, 1, 2, 3])

    class TestAE(applicationentity.AE):
        def on_receive_echo(self, context):
            return handler_result(command=None)

        def on_receive_store(self, context, ds):
            return handler_result()

        def on_receive_find(self, context, ds):
            record['handler_calls'] += 1
            if raises:
                raise exceptions.EventHandlingError('handler failed')
            return iter([(d, status_value(s)) for d, s in find_results])

        def on_receive_move(self, context, ds, destination):
            record['handler_calls'] += 1
            if raises:
                raise exceptions.EventHandlingError('handler failed')

            def gen_ds():
                for k in range(nsub):
                    d = pydicom.Dataset()
                    d.SOPClassUID = svc.CT
                    d.SOPInstanceUID = '1.2.3.%d.%d' % (i, k)
                    d.PatientName = 'MOVE^%d' % k
                    yield d
            return ({'aet': 'DEST', 'address': 'dest.example', 'port': 104}, nsub, gen_ds())

        def on_commitment_request(self, remote_ae, uids):
            record['handler_calls'] += 1
            if raises:
                raise exceptions.EventHandlingError('handler failed')
            uids = list(uids)
            k = len(uids) // 2 if r.random() < 0.6 else r.choice([0, len(uids)])
            ok = uids[:k]
            bad = [(c, u, 0x0112) for c, u in uids[k:]]
            return ({'aet': 'SCU', 'address': 'scu.example', 'port': 104}, ok, bad)

        def on_commitment_response(self, transaction_uid, success, failure):
            record['handler_calls'] += 1
            record['commit'] = (transaction_uid, list(success), list(failure))
            if raises:
                raise exceptions.EventHandlingError('handler failed')

    expected = []      # (command field, status spec)
    with stubdul.stubbed() as Stub:
        ae = TestAE('SCP', 0, bind_and_activate=False)
        try:
            ae.add_scu(sopclass.storage_scu, [svc.CT, svc.MR])
            ae.add_scp(sopclass.StorageCommitment())
            assoc = asceprovider.Association(ae, None, r.choice([16384, 128, 64]))
            assoc.remote_ae = 'REMOTE'
            stub = Stub.instances[0]
            # storage commitment: sometimes the association back to the requester of the
            # commitment cannot be opened - the N-ACTION request must be answered all the same
            sub_refused = provider == 'n-action' and not raises and r.random() < 0.3
            Stub.preload_on_empty = svc.CooperativePeer(refuse=sub_refused)
            case = dict(case, sub_refused=sub_refused)
            error = None
            try:
                request, sop_class, req_instance = call_provider(
                    provider, assoc, ae, r, msg_id, pc_id, instance, expected, outcome, raises,
                    find_results, nsub, Stub)
            except exceptions.EventHandlingError as exc:
                error = exc
                request = sop_class = req_instance = None
            except Exception as exc:
                error = exc
                request = sop_class = req_instance = None
            responses = svc.sent(stub)
        finally:
            ae.server_close()
    where = '%s id=%d ctx=%d outcome=%s' % (provider, msg_id, pc_id, case['outcome'])
    res.sample({'case': case, 'responses': [
        {'ctx': m['ctx'], 'field': '%04X' % (m['command'].get(R.TAG_COMMAND_FIELD) or 0),
         'id': m['command'].get(R.TAG_MESSAGE_ID_RSP), 'status': m['command'].get(R.TAG_STATUS)}
        for m in responses[:4]]}, limit=5)
    res.count('oracle.request-answered')
    if error is not None and not responses:
        key = 'request-unanswered:' + provider
        res.violation(key, 'C17.answered', '%s: provider raised %s: %s and sent no response' % (
            where, type(error).__name__, error), case)
        return
    if error is not None and not case.get('sub_refused'):
        res.violation('provider-raises:' + provider, 'C17.answered', '%s: provider raised %s: %s after %d '
                      'responses' % (where, type(error).__name__, error, len(responses)), case)
    if not responses:
        res.violation('request-unanswered:' + provider, 'C17.answered', '%s: no response sent' % where, case)
        return
    want_field, sop_class, req_instance = RESPONSE_FIELDS[provider], expected[0], expected[1]
    status_specs = expected[2]
    want_ctx = expected[3] if len(expected) > 3 else pc_id
    res.count('oracle.response-correlates')
    if len(responses) != len(status_specs):
        res.violation('response-count:' + provider, 'C17.correlate', '%s: %d responses sent, %d expected' % (
            where, len(responses), len(status_specs)), case)
    per = {}
    if isinstance(sop_class, list):
        # several requests answered in one call: what is expected differs per response
        per = {'sop': sop_class, 'inst': req_instance, 'ctx': want_ctx, 'id': expected[4]}
    request_id = msg_id
    for k, m in enumerate(responses):
        cmd = m['command']
        if per and k < len(per['sop']):
            sop_class, req_instance, want_ctx, msg_id = per['sop'][k], per['inst'][k], per['ctx'][k], per['id'][k]
        if m['problems']:
            res.violation('response-malformed:' + provider, 'C17.correlate', '%s: response %d: %s' % (
                where, k, m['problems'][0]), case)
            continue
        if m['ctx'] != want_ctx:
            res.violation('wrong-context:' + provider, 'C17.correlate', '%s: response %d sent on context %r' % (
                where, k, m['ctx']), case)
        if cmd.get(R.TAG_COMMAND_FIELD) != want_field:
            res.violation('wrong-response-type:' + provider, 'C17.correlate',
                          '%s: response %d has command field %r, expected %04XH' % (
                              where, k, cmd.get(R.TAG_COMMAND_FIELD), want_field), case)
        if cmd.get(R.TAG_MESSAGE_ID_RSP) != msg_id:
            res.violation('wrong-message-id:' + provider, 'C17.correlate',
                          '%s: response %d MessageIDBeingRespondedTo=%r' % (
                              where, k, cmd.get(R.TAG_MESSAGE_ID_RSP)), case)
        if (cmd.get(R.TAG_AFFECTED_SOP_CLASS) or '') != sop_class:
            res.violation('wrong-sop-class:' + provider, 'C17.correlate',
                          '%s: response %d AffectedSOPClassUID=%r, request %r' % (
                              where, k, cmd.get(R.TAG_AFFECTED_SOP_CLASS), sop_class), case)
        if req_instance is not None and (cmd.get(R.TAG_AFFECTED_SOP_INSTANCE) or '') != req_instance:
            res.violation('wrong-sop-instance:' + provider, 'C17.correlate',
                          '%s: response %d AffectedSOPInstanceUID=%r, request %r' % (
                              where, k, cmd.get(R.TAG_AFFECTED_SOP_INSTANCE), req_instance), case)
        if k < len(status_specs):
            res.count('oracle.status-carried')
            spec = status_specs[k]
            got = cmd.get(R.TAG_STATUS)
            ok = (got in spec) if isinstance(spec, (set, frozenset, list, tuple)) else spec(got)
            if not ok:
                res.violation('wrong-status:' + provider, 'C17.status',
                              '%s: response %d status %r, expected %s' % (
                                  where, k, ('%04XH' % got) if got is not None else None,
                                  sorted('%04XH' % s for s in spec) if not callable(spec)
                                  else spec.__name__), case)


RESPONSE_FIELDS = {'echo': 0x8030, 'store': 0x8001, 'store-file': 0x8001, 'find': 0x8020,
                   'mwl': 0x8020, 'move': 0x8021, 'n-action': 0x8130, 'n-event-report': 0x8100,
                   'get-store': 0x8001}


def not_pending(code):
    return code is not None and code not in (0xFF00, 0xFF01)


def is_failure(code):
    """Failure class per PS3.7 Annex C: 01xx/02xx general failures, Axxx/Cxxx service failures."""
    if code is None:
        return False
    return (0x0100 <= code <= 0x02FF and code not in (0x0107, 0x0116)) or \
        0xA000 <= code <= 0xAFFF or 0xC000 <= code <= 0xCFFF


def call_provider(provider, assoc, ae, r, msg_id, pc_id, instance, expected, outcome, raises,
                  find_results, nsub, Stub):
    """Builds the request, calls the provider, fills `expected` with
    [sop class, instance or None, [status spec per response]]."""
    from pynetdicom2 import sopclass, dsutils
    import pydicom
    if provider == 'echo':
        sop = svc.VERIFICATION
        rq = svc.request_message('CEchoRQMessage', {
            R.TAG_AFFECTED_SOP_CLASS: sop, R.TAG_COMMAND_FIELD: 0x0030, R.TAG_MESSAGE_ID: msg_id})
        expected += [sop, None, [{0x0110} if raises else {outcome}]]
        sopclass.verification_scp(assoc, svc.context(pc_id, sop), rq)
    elif provider in ('store', 'store-file'):
        sop = r.choice([svc.CT, svc.MR])
        ds = pydicom.Dataset()
        ds.PatientName = 'X'
        data = dsutils.encode(ds, True, True)
        rq = svc.request_message('CStoreRQMessage', {
            R.TAG_AFFECTED_SOP_CLASS: sop, R.TAG_COMMAND_FIELD: 0x0001, R.TAG_MESSAGE_ID: msg_id,
            R.TAG_PRIORITY: 0, R.TAG_AFFECTED_SOP_INSTANCE: instance}, data)
        import io
        if provider == 'store-file':
            import tempfile
            fp = tempfile.TemporaryFile()
            fp.write(data)
            fp.seek(0)
            rq.data_set = fp
        else:
            rq.data_set = io.BytesIO(data)
        expected += [sop, instance, [{0xC000} if raises else {outcome}]]
        sopclass.storage_scp(assoc, svc.context(pc_id, sop), rq)
    elif provider in ('find', 'mwl'):
        sop = svc.FIND if provider == 'find' else svc.MWL
        q = pydicom.Dataset()
        q.PatientName = 'Q*'
        rq = svc.request_message('CFindRQMessage', {
            R.TAG_AFFECTED_SOP_CLASS: sop, R.TAG_COMMAND_FIELD: 0x0020, R.TAG_MESSAGE_ID: msg_id,
            R.TAG_PRIORITY: 0}, dsutils.encode(q, True, True))
        if raises:
            expected += [sop, None, [is_failure]]
        else:
            expected += [sop, None, [{s} for _, s in find_results] + [{0x0000}]]
        fn = sopclass.qr_find_scp if provider == 'find' else sopclass.modality_work_list_scp
        fn(assoc, svc.context(pc_id, sop), rq)
    elif provider == 'move':
        sop = svc.MOVE
        q = pydicom.Dataset()
        q.PatientID = 'P1'
        rq = svc.request_message('CMoveRQMessage', {
            R.TAG_AFFECTED_SOP_CLASS: sop, R.TAG_COMMAND_FIELD: 0x0021, R.TAG_MESSAGE_ID: msg_id,
            R.TAG_PRIORITY: 0, R.TAG_MOVE_DESTINATION: 'DEST'}, dsutils.encode(q, True, True))
        store_statuses = [outcome if not raises else 0] * nsub
        Stub.preload_on_empty = svc.CooperativePeer(store_statuses)
        fault = r.random() < 0.25 and nsub and not raises
        if fault:
            # the destination accepts the association but not the context the instances need, or
            # stops answering: the retrieve still has to be concluded
            Stub.preload_on_empty = svc.CooperativePeer(store_statuses, refuse_classes=[svc.CT]) \
                if r.random() < 0.5 else svc.CooperativePeer(store_statuses, silent_on_store=0)
            expected += [sop, None, [not_pending]]
        elif raises:
            expected += [sop, None, [is_failure]]
        else:
            expected += [sop, None, [{0xFF00}] * nsub + [not_pending]]
        sopclass.qr_move_scp(assoc, svc.context(pc_id, sop), rq)
    elif provider == 'n-action':
        sop = svc.COMMIT
        ds = pydicom.Dataset()
        ds.TransactionUID = '1.2.3.99.%d' % msg_id
        seq = []
        for k in range(r.choice([1, 2, 5])):
            it = pydicom.Dataset()
            it.ReferencedSOPClassUID = svc.CT
            it.ReferencedSOPInstanceUID = '1.2.3.%d' % k
            seq.append(it)
        ds.ReferencedSOPSequence = pydicom.Sequence(seq)
        rq = svc.request_message('NActionRQMessage', {
            R.TAG_REQUESTED_SOP_CLASS: sop, R.TAG_COMMAND_FIELD: 0x0130, R.TAG_MESSAGE_ID: msg_id,
            R.TAG_REQUESTED_SOP_INSTANCE: svc.COMMIT_INSTANCE, R.TAG_ACTION_TYPE: 1},
            dsutils.encode(ds, True, True))
        expected += [sop, svc.COMMIT_INSTANCE, [{0x0110} if raises else {0x0000}]]
        _commitment_service(r, ae, 'n-event-report', raises, Stub)(assoc, svc.context(pc_id, sop), rq)
    elif provider == 'n-event-report':
        sop = svc.COMMIT
        ds = pydicom.Dataset()
        ds.TransactionUID = '1.2.3.98.%d' % msg_id
        it = pydicom.Dataset()
        it.ReferencedSOPClassUID = svc.CT
        it.ReferencedSOPInstanceUID = '1.2.3.4'
        ds.ReferencedSOPSequence = pydicom.Sequence([it])
        rq = svc.request_message('NEventReportRQMessage', {
            R.TAG_AFFECTED_SOP_CLASS: sop, R.TAG_COMMAND_FIELD: 0x0100, R.TAG_MESSAGE_ID: msg_id,
            R.TAG_AFFECTED_SOP_INSTANCE: svc.COMMIT_INSTANCE, R.TAG_EVENT_TYPE: 1},
            dsutils.encode(ds, True, True))
        expected += [sop, svc.COMMIT_INSTANCE, [is_failure if raises else {0x0000}]]
        _commitment_service(r, ae, 'n-action', raises, Stub)(assoc, svc.context(pc_id, sop), rq)
    else:   # get-store: the C-STORE responses of the C-GET user
        sop = svc.CT
        ae.add_scu(sopclass.qr_get_scu)
        ds = pydicom.Dataset()
        ds.PatientName = 'GOT'
        store_rq = svc.request_message('CStoreRQMessage', {
            R.TAG_AFFECTED_SOP_CLASS: sop, R.TAG_COMMAND_FIELD: 0x0001, R.TAG_MESSAGE_ID: msg_id,
            R.TAG_PRIORITY: 0, R.TAG_AFFECTED_SOP_INSTANCE: instance}, dsutils.encode(ds, True, True))
        final = svc.request_message('CGetRSPMessage', {
            R.TAG_AFFECTED_SOP_CLASS: svc.GET, R.TAG_COMMAND_FIELD: 0x8010, R.TAG_MESSAGE_ID_RSP: 9,
            R.TAG_STATUS: 0})
        # the store request arrives on the storage context negotiated by this AE
        store_ctx = [cid for cid, c in ae.context_def_list.items() if str(c.sop_class) == sop][0]
        assoc.dul.script.extend([(store_rq, store_ctx), (final, 77)])
        expected += [sop, instance, [{0xC000} if raises else {outcome}], store_ctx]
        if r.random() < 0.6:
            # a second sub-operation of another class: it arrives on, and is answered on, another context
            ctx2 = [cid for cid, c in ae.context_def_list.items() if str(c.sop_class) == svc.MR][0]
            id2 = (msg_id + 1) % 65536
            store2 = svc.request_message('CStoreRQMessage', {
                R.TAG_AFFECTED_SOP_CLASS: svc.MR, R.TAG_COMMAND_FIELD: 0x0001, R.TAG_MESSAGE_ID: id2,
                R.TAG_PRIORITY: 0, R.TAG_AFFECTED_SOP_INSTANCE: instance + '.2'}, dsutils.encode(ds, True, True))
            assoc.dul.script.insert(1, (store2, ctx2))
            status = [{0xC000} if raises else {outcome}]
            expected[:] = [[sop, svc.MR], [instance, instance + '.2'], status * 2, [store_ctx, ctx2],
                           [msg_id, id2]]
        q = pydicom.Dataset()
        q.PatientID = 'P'
        got = list(sopclass.qr_get_scu(assoc, svc.context(77, svc.GET), q, 9))
        # the first message sent is the C-GET-RQ itself: drop it from the responses
        assoc.dul.sent = [e for e in assoc.dul.sent
                          if not (e[0] == 'dimse' and _is_get_rq(e[1]))]
        return None, sop, instance
    return None, expected[0], expected[1]


def _commitment_service(r, ae, other_kind, raises, Stub):
    """The storage-commitment service object; half of the time one that has already served a message
    of the other kind (N-ACTION before N-EVENT-REPORT and the reverse) on another association."""
    from pynetdicom2 import asceprovider, sopclass, dsutils
    import pydicom
    # another dispatcher-based service of the process (an application's own) has handled the same kind
    # of message before: each dispatcher object finds its own methods
    class OtherService(sopclass.MessageDispatcherSCP):
        sop_classes = ['1.2.826.0.1.3680043.17.1']

        def n_action(self, asce, ctx, msg):
            return None

        def n_event_report(self, asce, ctx, msg):
            return None
    own_field = 0x0130 if other_kind == 'n-event-report' else 0x0100
    OtherService()(None, None, type('Msg', (), {'command_field': own_field})())
    service = sopclass.StorageCommitment()
    if raises or r.random() < 0.5:
        return service
    # the stub hands `preload_on_empty` to the next provider created: keep the case's own peer for
    # the case's own sub-association
    saved, Stub.preload_on_empty = Stub.preload_on_empty, None
    other = asceprovider.Association(ae, None, 16384)
    other.remote_ae = 'EARLIER'
    Stub.preload_on_empty = svc.CooperativePeer()
    ds = pydicom.Dataset()
    ds.TransactionUID = '1.2.3.97.1'
    it = pydicom.Dataset()
    it.ReferencedSOPClassUID = svc.CT
    it.ReferencedSOPInstanceUID = '1.2.3.4.5'
    ds.ReferencedSOPSequence = pydicom.Sequence([it])
    if other_kind == 'n-action':
        rq = svc.request_message('NActionRQMessage', {
            R.TAG_REQUESTED_SOP_CLASS: svc.COMMIT, R.TAG_COMMAND_FIELD: 0x0130, R.TAG_MESSAGE_ID: 4242,
            R.TAG_REQUESTED_SOP_INSTANCE: svc.COMMIT_INSTANCE, R.TAG_ACTION_TYPE: 1},
            dsutils.encode(ds, True, True))
    else:
        rq = svc.request_message('NEventReportRQMessage', {
            R.TAG_AFFECTED_SOP_CLASS: svc.COMMIT, R.TAG_COMMAND_FIELD: 0x0100, R.TAG_MESSAGE_ID: 4242,
            R.TAG_AFFECTED_SOP_INSTANCE: svc.COMMIT_INSTANCE, R.TAG_EVENT_TYPE: 1},
            dsutils.encode(ds, True, True))
    try:
        service(other, svc.context(9, svc.COMMIT), rq)
    except Exception:
        pass          # judged when that kind is the case's own request
    Stub.preload_on_empty = saved
    return service


def _is_get_rq(pdus):
    wire = stubdul.message_wire(pdus)
    try:
        return R.parse_command_set(wire['command']).get(R.TAG_COMMAND_FIELD) == 0x0010
    except R.RefError:
        return False
