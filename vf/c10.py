"""C10 - the negotiated maximum PDU length is honoured in both directions,
including 0 (= no limit).

For every pair (local configured maximum, maximum announced by the peer) of a
boundary grid and for both roles, the real ``AssociationAcceptor.accept`` /
``AssociationRequester.request`` negotiate through the stub provider (E4);
afterwards messages smaller than, equal to and several times the fragment size
go through the real ``Association.send``.  Monitors: the value this side
announces (parsed from the PDU it produced), the length of every P-DATA-TF
against the *peer's* announced limit, and completeness of every message.
"""
from __future__ import annotations

from . import fixtures as F, msgs, refcodec as R, stubdul
from .common import Result, rng

LEVEL = 'exploration'
ENGINE = 'stubdul+refcodec'
TECHNIQUE = ('grid sweep of (configured, announced) maximum-length pairs through the real negotiation code and '
             'Association.send; wire-level monitor of announced value, P-DATA-TF length bound and message completeness')
LEVEL_TEXT = ('the full boundary grid (22 x 22 pairs x 2 roles x 3-4 message sizes) is executed on every run, '
              'thorough adds seeded random pairs; exhaustive over the grid, a sample of all 2^64 pairs')
LEVEL_NOTE = 'trusts vf/refcodec.py; values 1..6 (cannot carry a payload byte) are outside the grid'
RULE = ('case = (role, local configured maximum, peer-announced maximum, data length); distinct = same tuple; '
        'non-trivial = every case (each negotiates and transmits)')
ASSUMPTIONS = ['maximum length bounds the P-DATA-TF variable field (PS3.8 D.1); 0 means no limit']
REQUIRED = ['oracle.announced-value', 'oracle.peer-limit-honoured', 'oracle.message-complete',
            'sim.entity-storage', 'sim.entity-hook', 'sim.entity-reuse', 'sim.entity-storage-full',
            'sim.source-short-reads']

GRID = [0, 7, 8, 9, 126, 127, 128, 129, 1023, 1024, 1025, 16383, 16384, 16385, 65535, 65536, 65537,
        2 ** 31 - 1, 2 ** 31, 2 ** 31 + 1, 2 ** 32 - 2, 2 ** 32 - 1]
NRANDOM = {'quick': 0, 'thorough': 3000}


OPTIMIZED_SAMPLE = 1     # the first shard once more under python -O (vf/runner.py)


def exhaustive(tier):
    return False


def plan(tier, seed):
    specs = []
    for role in ('acceptor', 'requestor'):
        for i in range(0, len(GRID), 3):
            specs.append({'name': 'grid', 'role': role, 'locals': GRID[i:i + 3]})
    if NRANDOM[tier]:
        for k in range(8):
            specs.append({'name': 'random', 'lo': k * NRANDOM[tier] // 8,
                          'hi': (k + 1) * NRANDOM[tier] // 8})
    return specs


def sizes_for(limit):
    """data lengths: smaller than / equal to / several times the fragment size"""
    if limit == 0 or limit > 70000:
        return [10, 70000]
    chunk = limit - 6
    out = {1, chunk, 3 * chunk + 1}
    if chunk > 1:
        out.add(chunk - 1)
    return sorted(n for n in out if 0 < n <= 250000)


def run_shard(spec, tier, seed):
    res = Result()
    if spec['name'] == 'grid':
        for local in spec['locals']:
            for peer in GRID:
                # sizes relative to the fragment size that should result (smaller of the non-zero
                # values): only chooses inputs, the oracle uses the peer's value alone
                eff = min([v for v in (local, peer) if v] or [0])
                for n in sizes_for(eff):
                    run_case(res, {'role': spec['role'], 'local': local, 'peer': peer, 'len': n,
                                   'seed': seed})
                # the ready-made storage entities negotiate like the plain ones
                run_case(res, {'role': spec['role'], 'local': local, 'peer': peer, 'len': sizes_for(eff)[-1],
                               'seed': seed, 'kind': 'storage'})
                if spec['role'] == 'requestor':
                    for other in ('storage-full', 'reuse', 'direct'):
                        run_case(res, {'role': 'requestor', 'local': local, 'peer': peer, 'len': sizes_for(eff)[0],
                                       'seed': seed, 'kind': other})
                if spec['role'] == 'acceptor':
                    # per-peer configuration: the application's on_association_request sets the
                    # acceptor's maximum for this association
                    run_case(res, {'role': 'acceptor', 'local': local, 'peer': peer, 'len': sizes_for(eff)[-1],
                                   'seed': seed, 'kind': 'hook'})
    else:
        for i in range(spec['lo'], spec['hi']):
            r = rng(seed, 'c10', i)

            def pick():
                k = r.random()
                if k < 0.15:
                    return 0
                if k < 0.6:
                    return r.randrange(7, 70000)
                return r.randrange(7, 2 ** 32)
            peer, local = pick(), pick()
            eff = min([v for v in (local, peer) if v] or [0])
            run_case(res, {'role': r.choice(['acceptor', 'requestor']), 'local': local, 'peer': peer,
                           'len': r.choice(sizes_for(eff)), 'seed': seed,
                           'kind': r.choice(['plain', 'plain', 'storage'])})
    return res


def replay(case):
    res = Result()
    run_case(res, case)
    return res


def key_for(case, base):
    """Mechanism key: which side's value is 0 is the mechanism, never the pair itself."""
    tags = []
    if case['local'] == 0:
        tags.append('local-0')
    if case['peer'] == 0:
        tags.append('peer-0')
    return base + (':' + '+'.join(tags) if tags else '')


def run_case(res, case):
    from pynetdicom2 import applicationentity, asceprovider, pdu as P, dimsemessages
    role, local, peer, n = case['role'], case['local'], case['peer'], case['len']
    res.evaluations += 1
    kind = case.get('kind', 'plain')
    res.distinct.add('%s|%d|%d|%d|%s' % (role, local, peer, n, kind))
    where = '%s(%s entity) local=%d peer=%d data=%d' % (role, kind, local, peer, n)
    res.count('sim.entity-' + kind)
    import tempfile
    storage_dir = tempfile.mkdtemp(prefix='vf-c10-') if kind.startswith('storage') else None
    try:
        _run(res, case, role, local, peer, n, kind, where, storage_dir)
    finally:
        if storage_dir:
            import shutil
            shutil.rmtree(storage_dir, ignore_errors=True)


class ShortReads(object):
    """A seekable binary stream whose read(n) may return fewer bytes than asked for before the
    end of the data (as raw, unbuffered and wrapping streams do)."""

    def __init__(self, data, r):
        import io
        self._f = io.BytesIO(data)
        self._r = r

    def read(self, n=-1):
        if n is None or n < 0:
            return self._f.read()
        if n > 1 and self._r.random() < 0.7:
            n = self._r.randrange(1, n)
        return self._f.read(n)

    def seek(self, *a):
        return self._f.seek(*a)

    def tell(self):
        return self._f.tell()

    def close(self):
        self._f.close()


def _run(res, case, role, local, peer, n, kind, where, storage_dir):
    from pynetdicom2 import applicationentity, asceprovider, pdu as P, dimsemessages
    import pynetdicom2
    r = rng(case['seed'], 'c10-data', n)
    data = bytes(r.getrandbits(8) for _ in range(min(n, 4096))) * (n // 4096 + 1)
    data = data[:n]
    with stubdul.stubbed() as Stub:
        announced = None
        try:
            if role == 'acceptor':
                if kind == 'storage':
                    ae = pynetdicom2.StorageAE(storage_dir, 'LOCAL', 0, max_pdu_length=local)
                elif kind == 'hook':
                    class PerPeer(applicationentity.AE):
                        def on_association_request(self, asce, assoc):
                            asce.max_pdu_length = local
                    ae = PerPeer('LOCAL', 0, bind_and_activate=False)
                else:
                    ae = applicationentity.AE('LOCAL', 0, bind_and_activate=False, max_pdu_length=local)
                try:
                    ae.add_scp(_echo_service())
                    rq = P.AAssociateRqPDU.decode(R.build_pdu(F.assoc_rq_tree(max_len=peer)))
                    Stub.preload = [rq, P.AReleaseRqPDU()]
                    # what socketserver's finish_request() does for an accepted connection
                    asce = ae.RequestHandlerClass(stubdul.FakeRequest(), ('peer', 1), ae)
                    stub = Stub.instances[0]
                finally:
                    ae.server_close()
                pdus = [p for p in stub.sent_pdus() if getattr(p, 'pdu_type', None) == 2]
            else:
                if kind == 'storage':
                    ae = pynetdicom2.ClientStorageAE(storage_dir, 'LOCAL', max_pdu_length=local)
                elif kind == 'storage-full':
                    # the ready-made storage entity in the requesting role
                    ae = pynetdicom2.StorageAE(storage_dir, 'LOCAL', 0, max_pdu_length=local)
                elif kind == 'reuse':
                    # an entity that has already requested an association with another (larger)
                    # maximum and was re-configured afterwards
                    ae = applicationentity.ClientAE('LOCAL', max_pdu_length=131072)
                    ae.add_scu(_echo_scu(), ['1.2.840.10008.1.1'])
                    Stub.preload = [P.AAssociateAcPDU.decode(R.build_pdu(F.assoc_ac_tree(max_len=peer)))]
                    ae.request_association({'aet': 'REMOTE', 'address': 'peer', 'port': 104}).__enter__()
                    del Stub.instances[:]
                    ae.max_pdu_length = local
                elif kind == 'direct':
                    # an application whose entity keeps one (large) maximum and gives individual
                    # destinations their own: the association object is built with that value
                    class PerDestination(applicationentity.ClientAE):
                        import contextlib as _ctx

                        @_ctx.contextmanager
                        def request_association(self, remote_ae):
                            assoc = asceprovider.AssociationRequester(self, remote_ae['max_pdu_length'], remote_ae)
                            assoc.request()
                            yield assoc
                    ae = PerDestination('LOCAL', max_pdu_length=131072 if local != 131072 else 0)
                else:
                    ae = applicationentity.ClientAE('LOCAL', max_pdu_length=local)
                if kind != 'reuse':
                    ae.add_scu(_echo_scu(), ['1.2.840.10008.1.1'])
                ac = P.AAssociateAcPDU.decode(R.build_pdu(F.assoc_ac_tree(max_len=peer)))
                Stub.preload = [ac]
                try:
                    cm = ae.request_association({'aet': 'REMOTE', 'address': 'peer', 'port': 104,
                                                 'max_pdu_length': local})
                    asce = cm.__enter__()
                finally:
                    if kind == 'storage-full':
                        ae.server_close()
                stub = Stub.instances[0]
                pdus = [p for p in stub.sent_pdus() if getattr(p, 'pdu_type', None) == 1]
            if len(pdus) == 1:
                tree = R.parse_pdu(pdus[0].encode())
                for item in tree['items']:
                    if item['type'] == 0x50:
                        for sub in item['subs']:
                            if sub['type'] == 0x51:
                                announced = sub['maxlen']
        except Exception as exc:
            res.violation(key_for(case, 'negotiation-raises'), 'C10.negotiate', '%s: %s: %s' % (
                where, type(exc).__name__, exc), case)
            return
        res.count('oracle.announced-value')
        if announced is None:
            res.violation(key_for(case, 'no-maximum-length-announced'), 'C10.announced',
                          '%s: no Maximum Length sub-item in the PDU produced' % where, case)
            return
        res.sample({'case': case, 'announced': announced}, limit=5)
        if kind != 'hook' and local != 0 and (announced == 0 or announced > local):
            res.violation(key_for(case, 'announces-more-than-configured'), 'C10.announced',
                          '%s: announces %d (0 = unlimited) but is configured to receive at most %d' % (
                              where, announced, local), case)
        # ---- now send through the negotiated association
        msg = dimsemessages.CStoreRQMessage()
        msg.message_id = 1
        msg.sop_class_uid = '1.2.840.10008.5.1.4.1.1.2'
        msg.affected_sop_instance_uid = '1.2.3.4'
        msg.priority = 0
        # the data set comes from memory, from a stream or from a real file (as storage_scu does)
        source = ('bytes', 'stream', 'file', 'short-reads')[(n + local + peer) % 4]
        if source == 'bytes':
            msg.data_set = data
        elif source == 'stream':
            import io
            msg.data_set = io.BytesIO(data)
        elif source == 'short-reads':
            msg.data_set = ShortReads(data, r)
        else:
            import tempfile
            fp = tempfile.TemporaryFile()
            fp.write(b'\0' * 132 + data)
            fp.seek(132)
            msg.data_set = fp
        where += ' source=' + source
        res.count('sim.source-' + source)
        before = len(stub.sent_messages())
        try:
            asce.send(msg, 1)
        except Exception as exc:
            res.count('oracle.message-complete')
            res.violation(key_for(case, 'send-raises'), 'C10.send', '%s: %s: %s' % (
                where, type(exc).__name__, exc), case)
            return
        sent = stub.sent_messages()[before:]
        res.count('oracle.message-complete')
        if len(sent) != 1:
            res.violation(key_for(case, 'message-not-sent'), 'C10.send', '%s: %d messages queued' % (
                where, len(sent)), case)
            return
        wire = stubdul.message_wire(sent[0])
        problems = list(wire['problems']) + wire['checker'].finish(expect_data=True)
        if wire['data'] != data:
            problems.append('data fragments carry %d bytes, %d supplied' % (len(wire['data']), len(data)))
        try:
            cs = R.parse_command_set(wire['command'])
            if cs.get(R.TAG_COMMAND_FIELD) != 1:
                problems.append('command set incomplete')
        except R.RefError as exc:
            problems.append('command set unreadable: %s' % exc)
        if problems:
            res.violation(key_for(case, 'message-incomplete'), 'C10.send',
                          '%s: message cannot be sent completely: %s (PDUs: %d)' % (
                              where, problems[0], len(sent[0])), case)
        res.count('oracle.peer-limit-honoured')
        if peer != 0:
            worst = max(wire['lengths']) if wire['lengths'] else 0
            if worst > peer:
                res.violation(key_for(case, 'pdu-longer-than-peer-maximum'), 'C10.bound',
                              '%s: P-DATA-TF of length %d sent, peer announced %d' % (where, worst, peer),
                              case)


def _echo_service():
    def service(asce, ctx, msg):
        pass
    service.sop_classes = ['1.2.840.10008.1.1']
    return service


def _echo_scu():
    def service(asce, ctx, *a):
        pass
    service.sop_classes = ['1.2.840.10008.1.1']
    return service
