"""C20 - several retrieves served at once.

N reference requestors send a C-MOVE to one server entity at the same time, each
on its own association, with its own message id, Query/Retrieve root and number
of instances; the application moves slowly, so that the retrieves overlap.  The
destination is a reference acceptor.  Every requestor reads its responses from
its own connection: all of them must answer *its* request (message id, SOP
class), count *its* sub-operations 1..n, and end with one final response; the
destination must receive every instance of every retrieve exactly once, each
retrieve's instances in order on one sub-association.
"""
from __future__ import annotations

import threading
import time

from . import refcodec as R, svc, tcpnet
from .common import rng

ROOTS = ['1.2.840.10008.5.1.4.1.2.1.2', '1.2.840.10008.5.1.4.1.2.2.2']


def run_round(res, case, attempt=0):
    from pynetdicom2 import applicationentity, dsutils, sopclass
    import pydicom
    k, n, seed = case['round'], case['n'], case['seed']
    r = rng(seed, 'c20-move', k)
    net = tcpnet.Net(seed=seed * 307 + k, jitter=r.choice([0.0, 0.001]) if not attempt else 0.0)
    if not attempt:
        res.evaluations += 1
    where = 'retrieve round %d: %d simultaneous C-MOVE requestors' % (k, n)
    plans = [{'tag': 'MV%dX%d' % (k % 1000, c), 'msg_id': 11 + 11 * c + (k % 5), 'root': ROOTS[c % 2],
              'count': r.choice([1, 2, 3, 4]), 'pace': r.choice([0.002, 0.01, 0.02])} for c in range(n)]
    by_tag = {p['tag']: p for p in plans}
    dest_seen = []           # (connection number, tag, instance uid)
    lock = threading.Lock()
    conn_no = [0]

    def destination(peer):
        with lock:
            conn_no[0] += 1
            me = conn_no[0]
        peer.accept(max_len=16384)
        while True:
            try:
                item = peer.recv_dimse()
            except tcpnet.PeerClosed:
                return
            if isinstance(item, dict):
                if item['type'] == 5:
                    peer.send_pdu({'type': 6})
                return
            ctx, cmd, data, lengths, problems = item
            from pydicom import uid
            u = uid.UID(peer.contexts[ctx][1])
            d = dsutils.decode(data, u.is_implicit_VR, u.is_little_endian)
            with lock:
                dest_seen.append((me, str(d.PatientID), cmd.get(R.TAG_AFFECTED_SOP_INSTANCE)))
            peer.send_dimse(ctx, {R.TAG_AFFECTED_SOP_CLASS: cmd.get(R.TAG_AFFECTED_SOP_CLASS),
                                  R.TAG_COMMAND_FIELD: 0x8001, R.TAG_MESSAGE_ID_RSP: cmd.get(R.TAG_MESSAGE_ID),
                                  R.TAG_STATUS: 0,
                                  R.TAG_AFFECTED_SOP_INSTANCE: cmd.get(R.TAG_AFFECTED_SOP_INSTANCE)})

    dest = tcpnet.PeerServer(destination, timeout=10.0)

    class Server(tcpnet.TapServerMixin, applicationentity.AE):
        def on_receive_move(self, context, ds, destination_title):
            p = by_tag[str(ds.PatientID)]

            def gen():
                for j in range(p['count']):
                    time.sleep(p['pace'])
                    d = pydicom.Dataset()
                    d.SOPClassUID = svc.CT
                    d.SOPInstanceUID = '1.2.826.20.9.%d.%s.%d' % (k, p['tag'].split('X')[1], j)
                    d.PatientID = p['tag']
                    yield d
            return {'aet': 'DEST', 'address': '127.0.0.1', 'port': dest.port}, p['count'], gen()

    results = [None] * n
    start = threading.Barrier(n)

    def client(c, port):
        p = plans[c]
        out = {'responses': [], 'error': None}
        results[c] = out
        try:
            peer = tcpnet.RefPeer.connect(port, timeout=15.0)
            try:
                reply = peer.associate([(1, ROOTS[0].encode(), (b'1.2.840.10008.1.2',)),
                                        (3, ROOTS[1].encode(), (b'1.2.840.10008.1.2',))],
                                       called=b'SERVER', calling=p['tag'].encode())
                q = pydicom.Dataset()
                q.PatientID = p['tag']
                q.QueryRetrieveLevel = 'PATIENT'
                start.wait(10)
                ctx = 1 + 2 * ROOTS.index(p['root'])
                peer.send_dimse(ctx, {R.TAG_AFFECTED_SOP_CLASS: p['root'], R.TAG_COMMAND_FIELD: 0x0021,
                                      R.TAG_MESSAGE_ID: p['msg_id'], R.TAG_PRIORITY: 0,
                                      R.TAG_MOVE_DESTINATION: 'DEST'}, dsutils.encode(q, True, True))
                while True:
                    item = peer.recv_dimse()
                    if isinstance(item, dict):
                        out['error'] = 'PDU type %d instead of a response' % item['type']
                        break
                    rctx, cmd, data, lengths, problems = item
                    out['responses'].append((rctx, cmd.get(R.TAG_STATUS), cmd.get(R.TAG_MESSAGE_ID_RSP),
                                             cmd.get(R.TAG_AFFECTED_SOP_CLASS), cmd.get(R.TAG_COMPLETED),
                                             cmd.get(R.TAG_REMAINING)))
                    if cmd.get(R.TAG_STATUS) not in (0xFF00, 0xFF01):
                        break
                peer.release()
            finally:
                peer.close()
        except Exception as exc:
            out['error'] = exc

    try:
        with tcpnet.instrument(net):
            server = Server('SERVER', 0, max_pdu_length=16384)
            server.net = net
            server.timeout = 8
            server.add_scp(sopclass.qr_move_scp)
            server.add_scu(sopclass.storage_scu, [svc.CT])
            with tcpnet.serving(server):
                threads = [threading.Thread(target=client, args=(c, server.port), daemon=True) for c in range(n)]
                t0 = time.time()
                for t in threads:
                    t.start()
                hung = False
                for t in threads:
                    t.join(max(40 - (time.time() - t0), 1))
                    hung = hung or t.is_alive()
                tcpnet.wait_quiet(0, 5.0)
                handler_errors = list(getattr(server, 'handler_errors', []))
    finally:
        dest.close()
    sig = net.signature()
    res.distinct.add(sig)
    if hung or dest.errors or any(tcpnet.is_timeout((o or {}).get('error')) for o in results):
        if attempt < 2:
            res.count('flaky-timeouts')
            return run_round(res, case, attempt + 1)
        res.inconclusive.append('%s: time-outs / reference peer trouble persist: %r' % (where, dest.errors[:1]))
        return
    res.count('oracle.simultaneous-retrieves')
    res.sample({'case': case, 'clients': [(p['tag'], p['msg_id'], p['count']) for p in plans[:4]],
                'responses_of_first': results[0]['responses'][:5], 'signature': sig}, limit=3)
    overlap = len(set(s[0] for s in dest_seen[:max(len(dest_seen) // 2, 1)]))
    res.count('sim.overlapping-retrieves', 1 if overlap > 1 else 0)
    for c, p in enumerate(plans):
        out = results[c]
        if out['error'] is not None:
            res.violation('healthy-association-disturbed', 'C20.isolation', '%s: requestor %s: %s' % (
                where, p['tag'], out['error']), case)
            continue
        ctx = 1 + 2 * ROOTS.index(p['root'])
        foreign = [x for x in out['responses'] if x[2] != p['msg_id'] or x[3] != p['root'] or x[0] != ctx]
        if foreign:
            res.violation('response-of-another-association', 'C20.isolation',
                          '%s: requestor %s (message id %d, root %s, context %d) received %r' % (
                              where, p['tag'], p['msg_id'], p['root'][-5:], ctx, foreign[:2]), case)
            continue
        pend = [x for x in out['responses'] if x[1] in (0xFF00, 0xFF01)]
        if [(x[4], x[5]) for x in pend] != [(j, p['count'] - j) for j in range(1, p['count'] + 1)] or \
                len(out['responses']) != p['count'] + 1:
            res.violation('progress-of-another-association', 'C20.isolation',
                          '%s: requestor %s asked for %d instances, responses (status, completed, remaining) %r'
                          % (where, p['tag'], p['count'], [(x[1], x[4], x[5]) for x in out['responses']]), case)
    want = sorted((p['tag'], '1.2.826.20.9.%d.%s.%d' % (k, p['tag'].split('X')[1], j))
                  for p in plans for j in range(p['count']))
    if sorted((t, i) for _, t, i in dest_seen) != want:
        res.violation('instance-lost-or-delivered-twice', 'C20.server',
                      '%s: destination received %d instances, %d were to be moved' % (
                          where, len(dest_seen), len(want)), case)
    else:
        for p in plans:
            mine = [(cno, i) for cno, t, i in dest_seen if t == p['tag']]
            if len(set(cno for cno, _ in mine)) != 1 or [i for _, i in mine] != sorted(i for _, i in mine):
                res.violation('instances-of-one-retrieve-mixed-up', 'C20.server',
                              '%s: instances of %s arrived as %r' % (where, p['tag'], mine), case)
                break
    if handler_errors:
        res.violation('server-handler-error', 'C20.server', '%s: %s: %s' % (
            where, type(handler_errors[0]).__name__, handler_errors[0]), case)
    # the entity's configuration belongs to the application: serving retrieves must leave it alone
    if server.timeout != 8:
        res.violation('entity-configuration-changed-by-serving', 'C20.isolation',
                      '%s: the serving entity was configured with timeout 8, after the round it is %r (every '
                      'association of the entity uses it)' % (where, server.timeout), case)
