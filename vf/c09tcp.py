"""C09 full-stack sample: the same negotiation oracle with the real provider
threads and loopback TCP; the requestor is the reference peer, so everything is
judged from bytes on the wire.  After the reply one request is sent on every
accepted context (it must be answered on that context) and, on a fresh
association, on one rejected context (it must reach no service).
"""
from __future__ import annotations

import contextlib

import threading

from . import c09, fixtures as F, inject, libmap, refcodec as R, tcpnet
from .common import rng


ACCEPT_PATH = ['pynetdicom2.asceprovider.AssociationAcceptor.accept',
               'pynetdicom2.asceprovider.AssociationAcceptor._establish']


@contextlib.contextmanager
def started_then_configured(server, service):
    """The entity is started the documented way (``with ae:``) and gets its service afterwards:
    what it serves is what is configured when the association is requested."""
    server.__enter__()
    try:
        server.add_scp(service)
        yield server
    finally:
        server.__exit__(None, None, None)


def run_case(res, case, attempt=0):
    from pynetdicom2 import applicationentity, dimsemessages
    import time
    t0 = time.monotonic()
    i, seed = case['index'], case['seed']
    r = rng(seed, 'c09-tcp', i)
    served_mask, ts_mask = r.randrange(1, 8), r.randrange(1, 16)
    served = [c09.CLASSES[k] for k in range(3) if served_mask >> k & 1]
    TSS = list(c09.TSS)
    r2 = rng(seed, 'c09-tcp-universe', i)
    if r2.random() < 0.35:
        # one transfer syntax of the universe is a standard one that pydicom's dictionary does not
        # know (HTJ2K, JPEG XL), or a private one
        TSS[r2.randrange(2, 4)] = r2.choice([b'1.2.840.10008.1.2.4.201', b'1.2.840.10008.1.2.4.110',
                                             b'1.2.826.0.1.3680043.9.7433.1.2'])
        res.count('sim.transfer-syntax-unknown-to-pydicom')
    # the image class is received into files (the decoder needs the context table for the first
    # message already), and the first request follows the reply at once
    in_file = r2.random() < 0.5
    supported = [TSS[k] for k in range(4) if ts_mask >> k & 1]
    n = r.choice([1, 2, 3, 5])
    ids = r.sample(range(1, 256, 2), n)
    contexts = []
    for cid in ids:
        a, tl = c09.CONTEXT_CHOICES[r.randrange(len(c09.CONTEXT_CHOICES))]
        abstract = c09.STRANGER if a == 3 else c09.CLASSES[a]
        contexts.append((cid, abstract, tuple(TSS[t] for t in c09.TS_LISTS[tl])))
    extra = sorted(r.sample(range(len(c09.EXTRAS)), r.choice([0, 1, 2, 3])))
    ident = [e for e in extra if c09.EXTRAS[e]['type'] == 0x58]
    extra = [e for e in extra if e not in ident[1:]]
    extra_subs = [c09.EXTRAS[e] for e in extra]
    res.evaluations += 1 if not attempt else 0
    res.distinct.add('tcp|%d|%d|%s|%s' % (served_mask, ts_mask, [(c, a[-4:], t) for c, a, t in contexts], extra))
    where = 'TCP served=%s supported=%s proposed=%s' % (
        [s.decode()[-8:] for s in served], [t.decode()[-6:] for t in supported],
        [(c, a.decode()[-8:], [t.decode()[-6:] for t in ts]) for c, a, ts in contexts])
    if extra:
        where += ' user-items=%s' % [('%02X' % s['type'], s.get('uid', b'').decode()[-8:], s.get('scu'),
                                      s.get('scp')) for s in extra_subs]
    calls = []
    lock = threading.Lock()

    def service(asce, ctx, msg):
        with lock:
            calls.append((ctx.id, str(ctx.sop_class), str(ctx.supported_ts)))
        if msg.command_field == 0x0001:
            rsp = dimsemessages.CStoreRSPMessage()
            rsp.affected_sop_instance_uid = msg.affected_sop_instance_uid
            if hasattr(msg.data_set, 'close'):
                msg.data_set.close()
        else:
            rsp = dimsemessages.CEchoRSPMessage()
        rsp.message_id_being_responded_to = msg.message_id
        rsp.sop_class_uid = msg.sop_class_uid
        rsp.status = 0
        asce.send(rsp, ctx.id)
    service.sop_classes = [s.decode() for s in served]
    if in_file:
        service.store_in_file = True

    class Server(tcpnet.TapServerMixin, applicationentity.AE):
        pass
    net = tcpnet.Net(seed=seed * 13 + i, jitter=r.choice([0, 0.002]) if not attempt else 0)
    want = {}
    for cid, abstract, tss in contexts:
        common = [t for t in tss if t in supported]
        want[cid] = (abstract in served and bool(common), common)
    error = None
    reply = None
    answered = {}
    rejected_probe = None
    inj = {}
    with tcpnet.instrument(net), inject.line_delays(ACCEPT_PATH, seed=seed * 7 + i, delays=(0.0, 0.001, 0.004),
                                                    stats=inj):
        try:
            server = Server('TCPSCP', 0, supported_ts=[t.decode() for t in supported])
            server.net = net
            server.timeout = 5 if not attempt else 30
            late = i % 6 == 1
            if not late:
                server.add_scp(service)
            else:
                res.count('sim.service-added-while-serving')
            with (started_then_configured(server, service) if late else tcpnet.serving(server)):
                peer = tcpnet.RefPeer.connect(server.port, timeout=5.0 if not attempt else 30.0)
                try:
                    reply = peer.associate(contexts, called=b'TCPSCP', calling=b'REF-REQUESTOR',
                                           extra_subs=extra_subs)
                    if reply['type'] == 2:
                        for item in [it for it in reply['items'] if it['type'] == 0x21 and it['result'] == 0]:
                            abstract = [a for c, a, t in contexts if c == item['id']]
                            if not abstract:
                                continue
                            if abstract[0] == c09.CLASSES[1]:
                                # an image: a request with a data set
                                peer.send_dimse(item['id'], {
                                    R.TAG_AFFECTED_SOP_CLASS: abstract[0].decode(), R.TAG_COMMAND_FIELD: 0x0001,
                                    R.TAG_MESSAGE_ID: item['id'], R.TAG_PRIORITY: 0,
                                    R.TAG_AFFECTED_SOP_INSTANCE: '1.2.826.9.%d.%d' % (i, item['id'])},
                                    b'\x08\x00\x18\x00\x04\x00\x00\x00' + b'1.2\x00')
                                res.count('sim.first-request-carries-a-data-set')
                            else:
                                peer.send_dimse(item['id'], {R.TAG_AFFECTED_SOP_CLASS: abstract[0].decode(),
                                                             R.TAG_COMMAND_FIELD: 0x0030,
                                                             R.TAG_MESSAGE_ID: item['id']})
                            got = peer.recv_dimse()
                            answered[item['id']] = got if isinstance(got, dict) else (got[0], got[1].get(
                                R.TAG_MESSAGE_ID_RSP))
                        peer.release()
                finally:
                    peer.close()
                bad = [c for c, (ok, _) in want.items() if not ok]
                if bad and reply is not None and reply['type'] == 2:
                    cid = bad[0]
                    abstract = [a for c, a, t in contexts if c == cid][0]
                    before = len(calls)
                    peer = tcpnet.RefPeer.connect(server.port, timeout=5.0 if not attempt else 30.0)
                    try:
                        peer.associate(contexts, called=b'TCPSCP', calling=b'REF-REQUESTOR',
                                           extra_subs=extra_subs)
                        peer.send_dimse(cid, {R.TAG_AFFECTED_SOP_CLASS: abstract.decode(),
                                              R.TAG_COMMAND_FIELD: 0x0030, R.TAG_MESSAGE_ID: 9})
                        try:
                            nxt = peer.recv_dimse()
                        except tcpnet.PeerClosed:
                            nxt = 'closed'
                        rejected_probe = (cid, len(calls) - before, nxt if isinstance(nxt, str) else
                                          (nxt.get('type') if isinstance(nxt, dict) else 'dimse'))
                    finally:
                        peer.close()
        except Exception as exc:
            error = exc
    tcpnet.wait_quiet(0, 3.0)
    res.count('oracle.tcp-sample')
    res.count('inject.lines-delayed', inj.get('hits', 0))
    if error is not None:
        import socket
        if attempt < 2 and time.monotonic() - t0 >= 4.0:
            # (one side's 5 s time-out reaches the other as a closed connection: a failure that took that long
            # is re-run alone, with patient time-outs, before it counts; a quick failure is no time-out)
            res.count('flaky-timeouts')
            return run_case(res, case, attempt + 1)
        res.violation('negotiation-raises:' + type(error).__name__, 'C09.tcp', '%s: %s: %s' % (
            where, type(error).__name__, error), case)
        return
    if reply['type'] != 2:
        res.violation('no-single-associate-ac', 'C09.tcp', '%s: reply PDU type %r' % (where, reply['type']), case)
        return
    answers = [it for it in reply['items'] if it['type'] == 0x21]
    if [a['id'] for a in answers] != [c for c, _, _ in contexts]:
        res.violation('contexts-not-answered-once-in-order', 'C09.tcp', '%s: reply answers %r' % (
            where, [a['id'] for a in answers]), case)
        return
    if libmap.strip_title(reply['called']) != b'TCPSCP' or \
            libmap.strip_title(reply['calling']) != b'REF-REQUESTOR':
        res.violation('titles-not-repeated', 'C09.tcp', '%s: %r / %r' % (where, reply['called'],
                                                                          reply['calling']), case)
    for a, (cid, abstract, tss) in zip(answers, contexts):
        should, common = want[cid]
        got = a['result'] == 0
        if got != should:
            res.violation('rejected-acceptable-context' if should else (
                'accepted-unserved-abstract-syntax' if abstract not in served else
                'accepted-without-common-transfer-syntax'), 'C09.tcp',
                '%s: context %d result %d' % (where, cid, a['result']), case)
        elif got and a['ts']['name'] not in common:
            res.violation('transfer-syntax-not-proposed' if a['ts']['name'] not in tss else
                          'transfer-syntax-not-supported', 'C09.tcp',
                          '%s: context %d answered with %r' % (where, cid, a['ts']['name']), case)
        if got and should:
            if answered.get(cid) != (cid, cid):
                res.violation('accepted-context-not-served', 'C09.tcp',
                              '%s: request on accepted context %d answered by %r' % (
                                  where, cid, answered.get(cid)), case)
            served_as = [c for c in calls if c[0] == cid]
            if served_as and served_as[0][2] != a['ts']['name'].decode():
                res.violation('served-with-other-parameters', 'C09.tcp',
                              '%s: context %d served with %s, reported %s' % (
                                  where, cid, served_as[0][2], a['ts']['name'].decode()), case)
    if rejected_probe is not None and rejected_probe[1]:
        res.violation('rejected-context-served', 'C09.tcp', '%s: request on rejected context %d was '
                      'dispatched' % (where, rejected_probe[0]), case)
