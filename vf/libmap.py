"""Mapping between refcodec trees and the library's public PDU classes.

Only documented constructor arguments / instance attributes are used.
``tree_to_lib`` builds library objects from a tree, ``lib_to_tree`` reads a
library object back into tree form (the "field values" of C02), ``deep_equal``
is the structural comparison of C01.
"""
from __future__ import annotations

import struct

from pynetdicom2 import pdu as P
from pynetdicom2 import userdataitems as U


def _txt(b):
    return b.decode('ascii') if isinstance(b, (bytes, bytearray)) else b


def _b(s):
    if isinstance(s, (bytes, bytearray)):
        return bytes(s)
    return str(s).encode('utf8')


def strip_title(raw):
    return bytes(raw).strip(b' \0')


# ---------------------------------------------------------------- tree -> lib
def sub_to_lib(s):
    t = s['type']
    rsv = s.get('rsv', 0)
    if t == 0x51:
        return U.MaximumLengthSubItem(s['maxlen'], reserved=rsv)
    if t == 0x52:
        return U.ImplementationClassUIDSubItem(_txt(s['uid']), reserved=rsv)
    if t == 0x55:
        return U.ImplementationVersionNameSubItem(_txt(s['name']), reserved=rsv)
    if t == 0x53:
        return U.AsynchronousOperationsWindowSubItem(s['invoked'], s['performed'], reserved=rsv)
    if t == 0x54:
        return U.ScpScuRoleSelectionSubItem(_txt(s['uid']), s['scu'], s['scp'], reserved=rsv)
    if t == 0x56:
        return U.SOPClassExtendedNegotiationSubItem(_txt(s['uid']), s['appinfo'], reserved=rsv)
    if t == 0x58:
        return U.UserIdentityNegotiationSubItem(
            s['primary'].decode('utf8'), s['secondary'].decode('utf8'),
            user_identity_type=s['idtype'], positive_response_req=s['posrsp'], reserved=rsv)
    if t == 0x59:
        return U.UserIdentityNegotiationSubItemAc(_txt(s['response']), reserved=rsv)
    return U.GenericUserDataSubItem(t, s['data'], reserved=rsv)


def item_to_lib(i):
    t = i['type']
    if t == 0x10:
        return P.ApplicationContextItem(_txt(i['name']), reserved=i.get('rsv', 0))
    if t == 0x20:
        return P.PresentationContextItemRQ(
            i['id'],
            P.AbstractSyntaxSubItem(_txt(i['abstract']['name']),
                                    reserved=i['abstract'].get('rsv', 0)),
            [P.TransferSyntaxSubItem(_txt(ts['name']), reserved=ts.get('rsv', 0))
             for ts in i['ts']],
            reserved1=i.get('rsv1', 0), reserved2=i.get('rsv2', 0),
            reserved3=i.get('rsv3', 0), reserved4=i.get('rsv4', 0))
    if t == 0x21:
        return P.PresentationContextItemAC(
            i['id'], i['result'],
            P.TransferSyntaxSubItem(_txt(i['ts']['name']), reserved=i['ts'].get('rsv', 0)),
            reserved1=i.get('rsv1', 0), reserved2=i.get('rsv2', 0), reserved3=i.get('rsv3', 0))
    if t == 0x50:
        return P.UserInformationItem([sub_to_lib(s) for s in i['subs']],
                                     reserved=i.get('rsv', 0))
    raise ValueError('no library class for item type %r' % t)


def tree_to_lib(tree):
    t = tree['type']
    if t in (1, 2):
        cls = P.AAssociateRqPDU if t == 1 else P.AAssociateAcPDU
        rsv3 = tree.get('rsv3', b'\0' * 32)
        # spaces are part of the value (a peer may pad with them); only the NUL fill is not
        return cls(called_ae_title=_txt(bytes(tree['called']).strip(b'\0')),
                   calling_ae_title=_txt(bytes(tree['calling']).strip(b'\0')),
                   variable_items=[item_to_lib(i) for i in tree['items']],
                   protocol_version=tree.get('version', 1), reserved1=tree.get('rsv1', 0),
                   reserved2=tree.get('rsv2', 0), reserved3=struct.unpack('>8I', rsv3))
    if t == 3:
        return P.AAssociateRjPDU(tree['result'], tree['source'], tree['reason'],
                                 reserved1=tree.get('rsv1', 0), reserved2=tree.get('rsv2', 0))
    if t == 4:
        return P.PDataTfPDU([P.PresentationDataValueItem(p['ctx'], p['data'])
                             for p in tree['pdvs']], reserved=tree.get('rsv', 0))
    if t in (5, 6):
        cls = P.AReleaseRqPDU if t == 5 else P.AReleaseRpPDU
        return cls(reserved1=tree.get('rsv1', 0), reserved2=tree.get('rsv2', 0))
    if t == 7:
        return P.AAbortPDU(tree['source'], tree['reason'], reserved1=tree.get('rsv1', 0),
                           reserved2=tree.get('rsv2', 0), reserved3=tree.get('rsv3', 0))
    raise ValueError('no library class for PDU type %r' % t)


PDU_CLASSES = {1: P.AAssociateRqPDU, 2: P.AAssociateAcPDU, 3: P.AAssociateRjPDU,
               4: P.PDataTfPDU, 5: P.AReleaseRqPDU, 6: P.AReleaseRpPDU, 7: P.AAbortPDU}


# ---------------------------------------------------------------- lib -> tree
def sub_to_tree(o):
    t = o.item_type
    rsv = o.reserved
    if isinstance(o, U.MaximumLengthSubItem):
        return {'type': t, 'rsv': rsv, 'maxlen': o.maximum_length_received}
    if isinstance(o, U.ImplementationClassUIDSubItem):
        return {'type': t, 'rsv': rsv, 'uid': _b(o.implementation_class_uid)}
    if isinstance(o, U.ImplementationVersionNameSubItem):
        return {'type': t, 'rsv': rsv, 'name': _b(o.implementation_version_name)}
    if isinstance(o, U.AsynchronousOperationsWindowSubItem):
        return {'type': t, 'rsv': rsv, 'invoked': o.max_num_ops_invoked,
                'performed': o.max_num_ops_performed}
    if isinstance(o, U.ScpScuRoleSelectionSubItem):
        return {'type': t, 'rsv': rsv, 'uid': _b(o.sop_class_uid), 'scu': o.scu_role,
                'scp': o.scp_role}
    if isinstance(o, U.SOPClassExtendedNegotiationSubItem):
        return {'type': t, 'rsv': rsv, 'uid': _b(o.sop_class_uid), 'appinfo': bytes(o.app_info)}
    if isinstance(o, U.UserIdentityNegotiationSubItem):
        return {'type': t, 'rsv': rsv, 'idtype': o.user_identity_type,
                'posrsp': o.positive_response_req, 'primary': _b(o.primary_field),
                'secondary': _b(o.secondary_field)}
    if isinstance(o, U.UserIdentityNegotiationSubItemAc):
        return {'type': t, 'rsv': rsv, 'response': _b(o.server_response)}
    if isinstance(o, U.GenericUserDataSubItem):
        return {'type': t, 'rsv': rsv, 'data': bytes(o.user_data)}
    raise ValueError('unknown sub-item object %r' % (o,))


def item_to_tree(o):
    if isinstance(o, P.ApplicationContextItem):
        return {'type': 0x10, 'rsv': o.reserved, 'name': _b(o.context_name)}
    if isinstance(o, P.PresentationContextItemRQ):
        return {'type': 0x20, 'rsv1': o.reserved1, 'id': o.context_id, 'rsv2': o.reserved2,
                'rsv3': o.reserved3, 'rsv4': o.reserved4,
                'abstract': {'type': 0x30, 'rsv': o.abs_sub_item.reserved,
                             'name': _b(o.abs_sub_item.name)},
                'ts': [{'type': 0x40, 'rsv': ts.reserved, 'name': _b(ts.name)}
                       for ts in o.ts_sub_items]}
    if isinstance(o, P.PresentationContextItemAC):
        return {'type': 0x21, 'rsv1': o.reserved1, 'id': o.context_id, 'rsv2': o.reserved2,
                'result': o.result_reason, 'rsv3': o.reserved3,
                'ts': {'type': 0x40, 'rsv': o.ts_sub_item.reserved,
                       'name': _b(o.ts_sub_item.name)}}
    if isinstance(o, P.UserInformationItem):
        return {'type': 0x50, 'rsv': o.reserved, 'subs': [sub_to_tree(s) for s in o.user_data]}
    # a sub-item object in the variable item list (what defect "UserInformationItem ignores
    # its length" produces) is reported as such
    return {'type': 'misplaced:%s' % type(o).__name__}


def lib_to_tree(o):
    if isinstance(o, (P.AAssociateRqPDU, P.AAssociateAcPDU)):
        return {'type': o.pdu_type, 'rsv1': o.reserved1, 'version': o.protocol_version,
                'rsv2': o.reserved2, 'called': _b(o.called_ae_title),
                'calling': _b(o.calling_ae_title),
                'rsv3': struct.pack('>8I', *o.reserved3),
                'items': [item_to_tree(i) for i in o.variable_items]}
    if isinstance(o, P.AAssociateRjPDU):
        return {'type': 3, 'rsv1': o.reserved1, 'rsv2': o.reserved2, 'result': o.result,
                'source': o.source, 'reason': o.reason_diag}
    if isinstance(o, P.PDataTfPDU):
        return {'type': 4, 'rsv': o.reserved,
                'pdvs': [{'ctx': p.context_id, 'data': bytes(p.data_value)}
                         for p in o.data_value_items]}
    if isinstance(o, (P.AReleaseRqPDU, P.AReleaseRpPDU)):
        return {'type': o.pdu_type, 'rsv1': o.reserved1, 'rsv2': o.reserved2}
    if isinstance(o, P.AAbortPDU):
        return {'type': 7, 'rsv1': o.reserved1, 'rsv2': o.reserved2, 'rsv3': o.reserved3,
                'source': o.source, 'reason': o.reason_diag}
    raise ValueError('unknown PDU object %r' % (o,))


def normalise(tree):
    """Canonical form for comparing trees: AE titles without insignificant
    leading/trailing spaces and NULs (PS3.8 9.3.2: non-significant)."""
    if isinstance(tree, dict):
        out = {}
        for k, v in tree.items():
            if k in ('called', 'calling'):
                out[k] = strip_title(v)
            else:
                out[k] = normalise(v)
        return out
    if isinstance(tree, (list, tuple)):
        return [normalise(v) for v in tree]
    if isinstance(tree, bytearray):
        return bytes(tree)
    return tree


def tree_diff(a, b, path=''):
    """First difference between two normalised trees, or None."""
    if isinstance(a, dict) and isinstance(b, dict):
        for k in sorted(set(a) | set(b), key=str):
            if k not in a:
                return '%s.%s missing on the left (right=%r)' % (path, k, _short(b[k]))
            if k not in b:
                return '%s.%s missing on the right (left=%r)' % (path, k, _short(a[k]))
            d = tree_diff(a[k], b[k], '%s.%s' % (path, k))
            if d:
                return d
        return None
    if isinstance(a, list) and isinstance(b, list):
        if len(a) != len(b):
            return '%s: %d elements vs %d' % (path, len(a), len(b))
        for i, (x, y) in enumerate(zip(a, b)):
            d = tree_diff(x, y, '%s[%d]' % (path, i))
            if d:
                return d
        return None
    if a != b:
        return '%s: %s != %s' % (path, _short(a), _short(b))
    return None


def _short(v):
    r = repr(v)
    return r if len(r) < 80 else r[:77] + '...'


# ---------------------------------------------------------------- C01 equality
def deep_equal(a, b, path='pdu'):
    """Recursive structural comparison: class, then every instance attribute.
    Returns None or a description of the first difference."""
    if isinstance(a, str) and isinstance(b, str):
        return None if str(a) == str(b) else '%s: %r != %r' % (path, _short(a), _short(b))
    if isinstance(a, (bytes, bytearray)) and isinstance(b, (bytes, bytearray)):
        return None if bytes(a) == bytes(b) else '%s: bytes differ (%d vs %d long)' % (
            path, len(a), len(b))
    if isinstance(a, (list, tuple)) and isinstance(b, (list, tuple)):
        if len(a) != len(b):
            return '%s: %d elements vs %d (%s vs %s)' % (
                path, len(a), len(b), [type(x).__name__ for x in a][:8],
                [type(x).__name__ for x in b][:8])
        for i, (x, y) in enumerate(zip(a, b)):
            d = deep_equal(x, y, '%s[%d]' % (path, i))
            if d:
                return d
        return None
    if hasattr(a, '__dict__') and hasattr(b, '__dict__') and not isinstance(a, type):
        if type(a) is not type(b):
            return '%s: %s vs %s' % (path, type(a).__name__, type(b).__name__)
        da, db = vars(a), vars(b)
        if set(da) != set(db):
            return '%s: attribute sets differ %r' % (path, sorted(set(da) ^ set(db)))
        for k in sorted(da):
            d = deep_equal(da[k], db[k], '%s.%s' % (path, k))
            if d:
                return d
        return None
    if type(a) in (int, bool) and type(b) in (int, bool):
        return None if a == b else '%s: %r != %r' % (path, a, b)
    if a is None and b is None:
        return None
    return None if (type(a) is type(b) and a == b) else '%s: %r != %r' % (
        path, _short(a), _short(b))
