"""Helpers for driving the service callables of sopclass.py on the stub provider
(C17, C19): request messages built from reference command bytes (the way the
provider delivers them), a cooperative scripted peer for sub-associations, and
the reading of what a provider sent with the independent command-set reader.
"""
from __future__ import annotations

from . import fixtures as F, refcodec as R, stubdul

CT = '1.2.840.10008.5.1.4.1.1.2'
MR = '1.2.840.10008.5.1.4.1.1.4'
FIND = '1.2.840.10008.5.1.4.1.2.1.1'
MOVE = '1.2.840.10008.5.1.4.1.2.1.2'
GET = '1.2.840.10008.5.1.4.1.2.1.3'
MWL = '1.2.840.10008.5.1.4.31'
COMMIT = '1.2.840.10008.1.20.1'
COMMIT_INSTANCE = '1.2.840.10008.1.20.1.1'
VERIFICATION = '1.2.840.10008.1.1'
IMPLICIT = '1.2.840.10008.1.2'
EXPLICIT = '1.2.840.10008.1.2.1'


def request_message(name, fields, data=None):
    """DIMSE request as the provider hands it over: the library's own message
    class built from a decoded command set, data set attached as bytes."""
    from pynetdicom2 import dimsemessages, dsutils
    fields = dict(fields)
    fields[R.TAG_DATA_SET_TYPE] = 0x0001 if data else 0x0101
    raw = R.build_command_set(fields)
    msg = getattr(dimsemessages, name)(dsutils.decode(raw, True, True))
    if data:
        msg.data_set = data
    return msg


def context(pc_id, sop_class, ts=IMPLICIT):
    from pynetdicom2 import asceprovider
    from pydicom import uid
    return asceprovider.PContextDef(pc_id, uid.UID(sop_class), uid.UID(ts))


def sent(stub):
    """Every DIMSE message a stub provider was asked to send:
    [{'ctx','command': {tag: value}, 'data': bytes, 'problems': [...], 'pdus': n}]"""
    out = []
    for pdus in stub.sent_messages():
        wire = stubdul.message_wire(pdus)
        entry = {'ctx': wire['ctx'], 'data': wire['data'], 'problems': list(wire['problems']),
                 'pdus': len(pdus), 'command': {}}
        try:
            entry['command'] = R.parse_command_set(wire['command'])
        except R.RefError as exc:
            entry['problems'].append(str(exc))
        out.append(entry)
    return out


def accept_all_reply(stub, refuse_classes=()):
    """receive() item for an AssociationRequester: accept every proposed context with its first
    transfer syntax (except those of `refuse_classes`: abstract syntax not supported)."""
    from pynetdicom2 import pdu as P
    rqs = [p for p in stub.sent_pdus() if getattr(p, 'pdu_type', None) == 1]
    tree = R.parse_pdu(rqs[-1].encode())
    answers = [(i['id'], 0, i['ts'][0]['name']) if i['abstract']['name'].decode() not in refuse_classes
               else (i['id'], 3, b'') for i in tree['items'] if i['type'] == 0x20]
    stub.proposed = {i['id']: i['abstract']['name'].decode() for i in tree['items'] if i['type'] == 0x20}
    stub.request_tree = tree
    ac = F.assoc_ac_tree(contexts=answers, max_len=16384, called=tree['called'].strip(b' \0'),
                         calling=tree['calling'].strip(b' \0'))
    return P.AAssociateAcPDU.decode(R.build_pdu(ac))


class CooperativePeer(object):
    """on_empty callback: answers whatever the local side sent last, the way a
    well-behaved peer would (C-STORE-RSP to a C-STORE-RQ, N-EVENT-REPORT-RSP,
    A-RELEASE-RP to an A-RELEASE-RQ)."""

    def __init__(self, store_statuses=None, refuse=False, silent_on_release=False, refuse_classes=(),
                 silent_on_store=None, release_on_store=None):
        self.release_on_store = release_on_store      # this C-STORE-RQ is answered with A-RELEASE-RQ
        self.refuse_classes = tuple(refuse_classes)   # contexts of these classes are not accepted
        self.silent_on_store = silent_on_store        # this (0-based) C-STORE-RQ is never answered
        self.store_statuses = list(store_statuses or [])
        self.stores = []
        self.answered = 0
        self.refuse = refuse                        # answer the A-ASSOCIATE-RQ with a rejection
        self.silent_on_release = silent_on_release  # never confirm the A-RELEASE-RQ

    def __call__(self, stub):
        from pynetdicom2 import pdu as P, exceptions
        if stub.sent and stub.sent[-1][0] == 'pdu':
            last = stub.sent[-1][1]
            if getattr(last, 'pdu_type', None) == 5:
                if self.silent_on_release:
                    raise exceptions.DCMTimeoutError()
                return P.AReleaseRpPDU()
            if getattr(last, 'pdu_type', None) == 1:
                if self.refuse:
                    return P.AAssociateRjPDU(1, 1, 7)
                return accept_all_reply(stub, self.refuse_classes)
        msgs = sent(stub)
        done = getattr(stub, '_peer_answered', 0)       # per provider: one peer object may serve several
        if done < len(msgs):
            m = msgs[done]
            stub._peer_answered = done + 1
            self.answered += 1
            cmd = m['command']
            field = cmd.get(R.TAG_COMMAND_FIELD)
            if field == 0x0001:
                if self.release_on_store is not None and len(self.stores) == self.release_on_store:
                    self.stores.append({'ctx': m['ctx'], 'command': cmd, 'data': m['data'], 'unanswered': True})
                    return P.AReleaseRqPDU()
                if self.silent_on_store is not None and len(self.stores) == self.silent_on_store:
                    self.stores.append({'ctx': m['ctx'], 'command': cmd, 'data': m['data'], 'unanswered': True})
                    raise exceptions.DCMTimeoutError()
                status = self.store_statuses.pop(0) if self.store_statuses else 0
                self.stores.append({'ctx': m['ctx'], 'command': cmd, 'data': m['data'],
                                    'dest': getattr(stub, 'destination', None)})
                rsp = request_message('CStoreRSPMessage', {
                    R.TAG_AFFECTED_SOP_CLASS: cmd.get(R.TAG_AFFECTED_SOP_CLASS),
                    R.TAG_COMMAND_FIELD: 0x8001, R.TAG_MESSAGE_ID_RSP: cmd.get(R.TAG_MESSAGE_ID) or 0,
                    R.TAG_STATUS: status,
                    R.TAG_AFFECTED_SOP_INSTANCE: cmd.get(R.TAG_AFFECTED_SOP_INSTANCE)})
                return (rsp, m['ctx'])
            if field == 0x0100:
                rsp = request_message('NEventReportRSPMessage', {
                    R.TAG_AFFECTED_SOP_CLASS: cmd.get(R.TAG_AFFECTED_SOP_CLASS),
                    R.TAG_COMMAND_FIELD: 0x8100, R.TAG_MESSAGE_ID_RSP: cmd.get(R.TAG_MESSAGE_ID) or 0,
                    R.TAG_STATUS: 0})
                return (rsp, m['ctx'])
        from pynetdicom2 import exceptions
        raise exceptions.DCMTimeoutError()
