"""C20 - concurrent associations on one application entity are isolated.

(a) N concurrent clients (real threads, loopback TCP, E5) against one server
    entity - and, in half of the rounds, all requested from one shared client
    entity - each with its own tagged data sets, sizes and operations (stores,
    echo, find); a third of them abort mid-transfer or are cut by a scripted
    connection reset.  Unique tags make every observation attributable: the
    server's handlers record (client, instance, context, transfer syntax) and
    every client checks what it got back.
(b) the convenience API's message-id counter hammered from many threads:
    ids are unique and consecutive within each thread, whatever the others do.
"""
from __future__ import annotations

import contextlib
import hashlib
import errno
import threading
import time

from . import inject, tcpnet, svc
from .common import Result, rng

LEVEL = 'exploration'
ENGINE = 'tcpnet'
TECHNIQUE = ('per-client exact-match and server-side set-conservation checkers over unambiguous histories (every data '
             'set, query and instance UID tagged with its client), under real-thread stress with seeded delay '
             'injection; distinct interleaving signatures are counted')
LEVEL_TEXT = ('rounds of 4..48 concurrent clients with mixed operations, aborts and resets, repeated over seeds and '
              'delay profiles; only the interleavings the OS and the injected delays produce are observed')
LEVEL_NOTE = ('no race detector exists for CPython: evidence is what the boundary monitors saw on the produced '
              'schedules; time-outs are re-run before they count')
RULE = ('case = one round (N clients, delay profile, shared or separate client entities); distinct = interleaving '
        'signature of the round (order of socket events tagged by connection); non-trivial = at least two '
        'associations overlap in time')
ASSUMPTIONS = ['loopback TCP is reliable']
REQUIRED = ['oracle.client-exact', 'oracle.server-conservation', 'oracle.healthy-undisturbed',
            'oracle.msg-id-per-thread', 'oracle.non-interference', 'baton.switches',
            'oracle.simultaneous-refusals', 'oracle.local-title-per-call',
            'oracle.simultaneous-retrieves', 'sim.overlapping-retrieves', 'oracle.slow-reader-left-alone',
            'oracle.admission-independent']

ROUNDS = {'quick': 24, 'thorough': 240}
SIZES = {'quick': [16, 16, 4, 16, 24, 16, 8, 16], 'thorough': [4, 16, 16, 48, 16, 32, 8, 16]}
MAX_PARALLEL = 8
TS = ['1.2.840.10008.1.2', '1.2.840.10008.1.2.1', '1.2.840.10008.1.2.2']


def exhaustive(tier):
    return False


def plan(tier, seed):
    specs = [{'name': 'round', 'index': k, 'n': SIZES[tier][k % len(SIZES[tier])]}
             for k in range(ROUNDS[tier])]
    specs.append({'name': 'msg-id'})
    for k in range(REJECT_ROUNDS[tier]):
        specs.append({'name': 'reject', 'index': k, 'n': [8, 16, 32, 12][k % 4]})
    for k in range(MOVE_ROUNDS[tier]):
        specs.append({'name': 'move', 'index': k, 'n': [4, 8, 16, 2][k % 4]})
    for k in range(1 if tier == 'quick' else 6):
        specs.append({'name': 'slow', 'index': k})
    for k in range(2 if tier == 'quick' else 24):
        specs.append({'name': 'pure', 'index': k})
    for k in range(4 if tier == 'quick' else 48):
        specs.append({'name': 'hook', 'index': k})
    nb = BATON_ROUNDS[tier]
    for part in range(8):
        specs.append({'name': 'baton', 'lo': part * nb // 8, 'hi': (part + 1) * nb // 8})
    return specs


BATON_ROUNDS = {'quick': 400, 'thorough': 20000}
REJECT_ROUNDS = {'quick': 8, 'thorough': 120}
MOVE_ROUNDS = {'quick': 8, 'thorough': 120}


def run_shard(spec, tier, seed):
    res = Result()
    if spec['name'] == 'baton':
        from . import c20baton
        for k in range(spec['lo'], spec['hi']):
            c20baton.run_round(res, {'baton': True, 'round': k, 'seed': seed})
        return res
    if spec['name'] == 'pure':
        from . import c20pure
        c20pure.run(res, seed + spec['index'])
        return res
    if spec['name'] == 'slow':
        from . import c20slow
        c20slow.run_round(res, {'slow': True, 'round': spec['index'], 'seed': seed})
        return res
    if spec['name'] == 'hook':
        from . import c20hook
        c20hook.run_round(res, {'hook': True, 'round': spec['index'], 'seed': seed})
        return res
    if spec['name'] == 'move':
        from . import c20move
        c20move.run_round(res, {'move': True, 'round': spec['index'], 'n': spec['n'], 'seed': seed})
        return res
    if spec['name'] == 'reject':
        from . import c20reject
        c20reject.run_round(res, {'reject': True, 'round': spec['index'], 'n': spec['n'], 'seed': seed})
        return res
    if spec['name'] == 'msg-id':
        return msg_ids(res, seed, 32 if tier == 'quick' else 64)
    run_round(res, {'round': spec['index'], 'n': spec['n'], 'seed': seed})
    return res


def replay(case):
    res = Result()
    if case.get('baton'):
        from . import c20baton
        c20baton.run_round(res, case)
        return res
    if case.get('pure'):
        from . import c20pure
        c20pure.run(res, case.get('seed', 0))
        return res
    if case.get('slow'):
        from . import c20slow
        c20slow.run_round(res, case)
        return res
    if case.get('hook'):
        from . import c20hook
        c20hook.run_round(res, case)
        return res
    if case.get('move'):
        from . import c20move
        c20move.run_round(res, case)
        return res
    if case.get('reject'):
        from . import c20reject
        c20reject.run_round(res, case)
        return res
    if case.get('msg_id'):
        return msg_ids(res, case.get('seed', 0), 32)
    run_round(res, case)
    return res


def canon(ds):
    from pynetdicom2 import dsutils
    return hashlib.sha256(dsutils.encode(ds, True, True)).hexdigest()


def run_round(res, case, attempt=0):
    from pynetdicom2 import applicationentity, exceptions, sopclass, statuses
    import pydicom
    k, n, seed = case['round'], case['n'], case['seed']
    r = rng(seed, 'c20', k)
    shared_client = k % 2 == 1
    jitter = r.choice([0.0, 0.001, 0.003]) if not attempt else 0.0
    delay = r.choice([0.0, 0.0005, 0.002]) if not attempt else 0.0
    net = tcpnet.Net(seed=seed * 101 + k, jitter=jitter, delay=delay)
    res.evaluations += 1 if not attempt else 0
    where = 'round %d: %d clients, shared client entity=%s, jitter=%s delay=%s' % (k, n, shared_client,
                                                                                  jitter, delay)
    stored = []            # server side: (client tag, instance, ctx id, ts, canon)
    queries = []
    lock = threading.Lock()

    class Server(tcpnet.TapServerMixin, applicationentity.AE):
        def on_receive_store(self, context, ds):
            d = pydicom.dcmread(ds)
            with lock:
                stored.append((str(d.PatientID), str(d.SOPInstanceUID), context.id,
                               str(context.supported_ts), canon(_strip(d))))
            return statuses.SUCCESS

        def get_file(self, context, command_set):
            # the storage fails for one instance of one association (disk full for that file):
            # that is this association's problem only
            if str(command_set.AffectedSOPInstanceUID) in faulty:
                res.count('sim.storage-fault-on-one-association')
                raise OSError(errno.ENOSPC, 'No space left on device')
            return super().get_file(context, command_set)

        def on_receive_find(self, context, ds):
            tag = str(ds.PatientID)
            with lock:
                queries.append(tag)
            out = []
            for j in range(3):
                m = pydicom.Dataset()
                m.PatientID = tag
                m.PatientName = 'MATCH^%s^%d' % (tag, j)
                out.append((m, statuses.C_FIND_PENDING))
            return iter(out)

    plans = []
    for c in range(n):
        rc = rng(seed, 'c20-client', k, c)
        fate = 'healthy'
        if c % 3 == 2:
            fate = rc.choice(['abort', 'reset', 'storage-fault'])
        nst = rc.choice([1, 2, 3, 5])
        sizes = [rc.choice([10, 500, 5000, 40000]) for _ in range(nst)]
        plans.append({'tag': 'CL%d-%d' % (k, c), 'fate': fate, 'sizes': sizes,
                      'ts': TS[c % 3], 'max': rc.choice([128, 1024, 16384, 65536]),
                      'cut_after': rc.randrange(0, nst), 'sop': svc.CT if c % 2 else svc.MR,
                      'ops': rc.sample(['echo', 'find', 'store'], 3)})
    results = [None] * n
    shared = None
    faulty = set('1.2.826.20.%d.%s.%d' % (k, p['tag'].split('-')[1], p['cut_after'])
                 for p in plans if p['fate'] == 'storage-fault')

    def make_client(p):
        ae = applicationentity.ClientAE('CLIENT', supported_ts=[p['ts']], max_pdu_length=p['max'])
        ae.timeout = 8
        ae.add_scu(sopclass.verification_scu)
        ae.add_scu(sopclass.qr_find_scu)
        ae.add_scu(sopclass.storage_scu, [svc.CT, svc.MR])
        return ae

    def dataset(p, j):
        ds = pydicom.Dataset()
        ds.SOPClassUID = p['sop']
        ds.SOPInstanceUID = '1.2.826.20.%d.%s.%d' % (k, p['tag'].split('-')[1], j)
        ds.PatientID = p['tag']
        ds.PatientName = 'DATA^%s^%d' % (p['tag'], j)
        ds.ImageComments = ('%s-%d-' % (p['tag'], j)) * (p['sizes'][j] // 8 + 1)
        return ds

    def client(c, port):
        p = plans[c]
        out = {'sent': [], 'statuses': [], 'find': None, 'echo': None, 'error': None, 'contexts': None,
               'aborted_at': None}
        results[c] = out
        ae = shared if shared_client else make_client(p)
        remote = {'aet': 'SERVER', 'address': '127.0.0.1', 'port': port}
        try:
            with ae.request_association(remote) as assoc:
                out['contexts'] = {cid: (str(v.sop_class), str(v.supported_ts))
                                   for cid, v in assoc.accepted_contexts.items()}
                out['max'] = assoc.max_pdu_length
                for op in p['ops']:
                    if op == 'echo':
                        out['echo'] = int(assoc.get_scu(svc.VERIFICATION)(1))
                    elif op == 'find':
                        q = pydicom.Dataset()
                        q.PatientID = p['tag']
                        q.QueryRetrieveLevel = 'PATIENT'
                        out['find'] = [(str(d.PatientName) if d is not None else None, int(s))
                                       for d, s in assoc.get_scu(svc.FIND)(q, 2)]
                    else:
                        service = assoc.get_scu(p['sop'])
                        for j in range(len(p['sizes'])):
                            if p['fate'] in ('abort', 'reset') and j == p['cut_after']:
                                out['aborted_at'] = j
                                if p['fate'] == 'reset':
                                    sock = assoc.dul.dul_socket
                                    if hasattr(sock, 'reset_after_sent'):
                                        sock.reset_after_sent = len(sock.sent) + 60
                                else:
                                    assoc.abort()
                                    return
                            ds = dataset(p, j)
                            out['sent'].append((str(ds.SOPInstanceUID), canon(ds)))
                            st = service(ds, 10 + j)
                            out['statuses'].append(int(st))
        except Exception as exc:
            out['error'] = exc

    inj = {}
    # every other round stretches the windows inside the file-creation path (vf/inject.py)
    with tcpnet.instrument(net), (inject.line_delays(inject.STORAGE_PATH, seed=seed * 19 + k, stats=inj)
                                  if (k % 4 < 2 and not attempt) else contextlib.nullcontext()):
        server = Server('SERVER', 0, max_pdu_length=16384)
        server.net = net
        server.timeout = 8
        server.add_scp(sopclass.verification_scp).add_scp(sopclass.storage_scp).add_scp(sopclass.qr_find_scp)
        with tcpnet.serving(server):
            if shared_client:
                shared = make_client({'ts': TS[0], 'max': 16384})
                for p in plans:
                    p['ts'] = TS[0]
            threads = [threading.Thread(target=client, args=(c, server.port), daemon=True) for c in range(n)]
            t0 = time.time()
            for t in threads:
                t.start()
            hung = False
            for t in threads:
                t.join(max(60 - (time.time() - t0), 1))
                hung = hung or t.is_alive()
            tcpnet.wait_quiet(0, 5.0)
            handler_errors = list(getattr(server, 'handler_errors', []))
    leftover = len(tcpnet.provider_threads())
    res.count('inject.lines-delayed', inj.get('hits', 0))
    sig = net.signature()
    res.distinct.add(sig)
    res.notes['interleaving_signatures'] = [sig]
    timeouts = [c for c in range(n) if isinstance((results[c] or {}).get('error'), exceptions.DCMTimeoutError)]
    if (timeouts or hung) and attempt < 2:
        res.count('flaky-timeouts')
        return run_round(res, case, attempt + 1)
    res.sample({'case': case, 'where': where, 'clients': [
        {'tag': p['tag'], 'fate': p['fate'], 'ops': p['ops'], 'stores': len(p['sizes'])} for p in plans[:4]],
        'server_saw': len(stored), 'signature': sig}, limit=3)
    if hung:
        res.inconclusive.append('%s: client threads still running after the watchdog' % where)
        return
    # ---------------- per client
    res.count('oracle.client-exact')
    res.count('oracle.healthy-undisturbed')
    by_client = {}
    for tag, inst, cid, ts, h in stored:
        by_client.setdefault(tag, []).append((inst, cid, ts, h))
    for c, p in enumerate(plans):
        out = results[c]
        tag = p['tag']
        mine = by_client.get(tag, [])
        if p['fate'] == 'healthy':
            if out['error'] is not None:
                res.violation('healthy-association-disturbed', 'C20.isolation',
                              '%s: client %s failed with %s: %s' % (where, tag, type(out['error']).__name__,
                                                                   out['error']), case)
                continue
            if out['echo'] != 0:
                res.violation('echo-status', 'C20.client', '%s: client %s echo -> %r' % (where, tag, out['echo']),
                              case)
            want_find = [('MATCH^%s^%d' % (tag, j), 0xFF00) for j in range(3)] + [(None, 0)]
            if out['find'] != want_find:
                res.violation('find-results-of-another-association', 'C20.client',
                              '%s: client %s received %r' % (where, tag, out['find']), case)
            if out['statuses'] != [0] * len(p['sizes']):
                res.violation('store-status', 'C20.client', '%s: client %s store statuses %r' % (
                    where, tag, out['statuses']), case)
            if [(i, h) for i, cid, ts, h in mine] != out['sent']:
                res.violation('server-saw-other-data', 'C20.client',
                              '%s: client %s sent %r, server handler saw %r' % (
                                  where, tag, [s[0][-6:] for s in out['sent']], [m[0][-6:] for m in mine]), case)
        else:
            # aborting / reset clients: what the server saw is a prefix of what they sent
            sent = out['sent']
            seen = [(i, h) for i, cid, ts, h in mine]
            if p['fate'] == 'storage-fault':
                # whatever the association does after its storage failed: the handler saw only
                # instances that were sent, in order, and never the one that could not be stored
                it = iter(sent)
                ok = all(any(x == y for y in it) for x in seen) and not any(i in faulty for i, h in seen)
            else:
                ok = seen == sent[:len(seen)]
            if not ok:
                res.violation('server-saw-other-data', 'C20.client',
                              '%s: aborting client %s sent %r, server saw %r' % (
                                  where, tag, [s[0][-6:] for s in sent], [m[0][-6:] for m in mine]), case)
        # negotiated parameters of this association, as seen by the server handlers
        if out['contexts']:
            for inst, cid, ts, h in mine:
                if out['contexts'].get(cid, (None, None))[1] != ts:
                    res.violation('negotiated-parameters-mixed-up', 'C20.isolation',
                                  '%s: client %s stored on context %d with %s, its association negotiated %r' % (
                                      where, tag, cid, ts, out['contexts'].get(cid)), case)
                    break
    # ---------------- server side conservation
    res.count('oracle.server-conservation')
    tags = set(p['tag'] for p in plans)
    stray = [s for s in stored if s[0] not in tags]
    if stray:
        res.violation('server-saw-unknown-client', 'C20.server', '%s: %r' % (where, stray[:3]), case)
    dup = len(stored) - len(set((s[0], s[1]) for s in stored))
    if dup:
        res.violation('instance-delivered-twice', 'C20.server', '%s: %d duplicate (client, instance) pairs' % (
            where, dup), case)
    if sorted(queries) != sorted(p['tag'] for c, p in enumerate(plans)
                                 if results[c]['find'] is not None or
                                 (results[c]['error'] is None and p['fate'] == 'healthy')) and \
            not set(queries) <= tags:
        res.violation('query-of-unknown-client', 'C20.server', '%s: queries %r' % (where, queries[:5]), case)
    unexpected = [e for e in handler_errors]
    if unexpected:
        res.violation('server-handler-error', 'C20.server', '%s: %s: %s' % (
            where, type(unexpected[0]).__name__, unexpected[0]), case)
    if leftover:
        res.violation('provider-threads-left', 'C20.leak', '%s: %d provider threads still alive 5 s after the '
                      'round' % (where, leftover), case)


def _strip(d):
    import copy
    x = copy.deepcopy(d)
    if hasattr(x, 'file_meta'):
        del x.file_meta
    x.is_little_endian = True
    x.is_implicit_VR = True
    return x


def msg_ids(res, seed, nthreads):
    import pynetdicom2
    from . import c20ids
    res.evaluations += 1
    # the ids as a peer sees them when several threads use the one-call c_find wrapper
    c20ids.run(res, seed)
    if not hasattr(pynetdicom2, '_new_msg_id'):
        res.count('oracle.msg-id-per-thread')
        return res
    per = 2000
    out = [None] * nthreads
    start = threading.Barrier(nthreads)

    def worker(t):
        start.wait()
        seq = []
        # one thread draws as many ids as a 16-bit message id field can tell apart
        for _ in range(per if t else 65535):
            seq.append(pynetdicom2._new_msg_id())
            if len(seq) % 97 == 0:
                time.sleep(0)
        out[t] = seq
    threads = [threading.Thread(target=worker, args=(t,)) for t in range(nthreads)]
    for t in threads:
        t.start()
    for t in threads:
        t.join(60)
    res.count('oracle.msg-id-per-thread')
    case = {'msg_id': True, 'seed': seed}
    res.distinct.add('msg-id|%d' % nthreads)
    res.distinct.add('msg-id-threads')
    for t, seq in enumerate(out):
        if seq is None:
            res.inconclusive.append('message-id worker %d did not finish' % t)
            continue
        if len(set(seq)) != len(seq):
            res.violation('message-id-repeated-in-thread', 'C20.msg-id',
                          'thread %d: %d ids, %d distinct' % (t, len(seq), len(set(seq))), case)
        elif seq != list(range(seq[0], seq[0] + len(seq))):
            res.violation('message-id-sequence-influenced-by-other-threads', 'C20.msg-id',
                          'thread %d: ids not consecutive: %r...' % (t, seq[:8]), case)
    res.sample({'msg_id_threads': nthreads, 'per_thread': per,
                'first_ids': [seq[:3] for seq in out[:4] if seq]}, limit=4)
    return res
