"""Delay injection at source lines of chosen library functions.

Races between association threads need two threads inside the same few lines at
the same time; on an idle machine that window is microseconds wide.  While the
context manager is active, every *line* executed inside the given functions (and
only there: `sys.monitoring` local events on their code objects) is followed, in
the executing thread, by a short random sleep - which hands the GIL over and
stretches the window to milliseconds.  Correct code is indifferent to it.

The functions are looked up by dotted name at run time; one that does not exist
(renamed by a refactoring) is skipped and the workload runs without injection
there - `hits` tells how many lines were actually delayed.
"""
from __future__ import annotations

import contextlib
import importlib
import random
import sys
import threading
import time

TOOL_ID = 3


def _resolve(dotted):
    parts = dotted.split('.')
    for cut in range(len(parts), 0, -1):
        try:
            obj = importlib.import_module('.'.join(parts[:cut]))
        except ImportError:
            continue
        try:
            for name in parts[cut:]:
                obj = getattr(obj, name)
        except AttributeError:
            return None
        return obj
    return None


def _code_of(obj):
    obj = getattr(obj, '__func__', obj)
    obj = getattr(obj, '__wrapped__', obj)
    return getattr(obj, '__code__', None)


def _module_codes(modname):
    import types
    try:
        mod = importlib.import_module(modname)
    except ImportError:
        return []
    out = []

    def take(obj):
        code = _code_of(obj)
        if code is not None and code.co_filename == getattr(mod, '__file__', None) and code not in out:
            out.append(code)
    for value in vars(mod).values():
        if isinstance(value, types.FunctionType):
            take(value)
        elif isinstance(value, type) and value.__module__ == modname:
            for member in vars(value).values():
                member = getattr(member, 'fget', member)          # properties
                member = getattr(member, '__func__', member)      # static / class methods
                if isinstance(member, types.FunctionType):
                    take(member)
    return out


@contextlib.contextmanager
def line_delays(names, seed=0, delays=(0.0, 0.0, 0.001, 0.003), stats=None):
    """stats: dict that receives 'hits' (lines delayed) and 'functions' (names found)."""
    stats = stats if stats is not None else {}
    stats.setdefault('hits', 0)
    stats.setdefault('functions', [])
    mon = getattr(sys, 'monitoring', None)
    codes = []
    for name in names:
        if name.endswith('.*'):
            # every function and method defined in that module (helpers added later included)
            found = _module_codes(name[:-2])
            codes.extend(found)
            if found:
                stats['functions'].append('%s (%d functions)' % (name, len(found)))
            continue
        code = _code_of(_resolve(name))
        if code is not None:
            codes.append(code)
            stats['functions'].append(name)
    if mon is None or not codes:
        yield stats
        return
    rnd = random.Random(seed)
    lock = threading.Lock()

    def on_line(code, line):
        with lock:
            d = rnd.choice(delays)
            stats['hits'] += 1
        time.sleep(d)

    try:
        mon.use_tool_id(TOOL_ID, 'vf-inject')
    except ValueError:
        yield stats          # somebody else holds the slot: run without injection
        return
    try:
        mon.register_callback(TOOL_ID, mon.events.LINE, on_line)
        for code in codes:
            mon.set_local_events(TOOL_ID, code, mon.events.LINE)
        yield stats
    finally:
        for code in codes:
            try:
                mon.set_local_events(TOOL_ID, code, 0)
            except ValueError:
                pass
        mon.register_callback(TOOL_ID, mon.events.LINE, None)
        mon.free_tool_id(TOOL_ID)


STORAGE_PATH = ['pynetdicom2._get_storage_file', 'pynetdicom2.applicationentity.write_meta',
                'pynetdicom2.StorageAE.get_file', 'pynetdicom2.ClientStorageAE.get_file',
                'pynetdicom2.applicationentity.AEBase.get_file']
