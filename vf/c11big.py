"""C11 over the real provider loop: a large proposal and a large reply.

The Maximum Length an entity announces bounds P-DATA-TF PDUs only.  An
A-ASSOCIATE-AC that answers 100+ proposed contexts is several KB long and must
reach the requesting user whatever (small) maximum the entity is configured
with.  Requestor-side provider under the simulated transport.
"""
from __future__ import annotations

from . import fixtures as F, libmap, refcodec as R, simnet

TS = [F.IMPLICIT, F.EXPLICIT, b'1.2.840.10008.1.2.4.50']


def run(res, replay_case=None):
    for n in (40, 117, 128):
        for ts in TS:
            for max_len in (128, 1024, 4096, 4100, 65536, 0):
                case = {'big': True, 'n': n, 'ts': ts.decode(), 'max': max_len}
                if replay_case is not None and any(replay_case.get(k) != v for k, v in case.items()):
                    continue
                ids = list(range(1, 2 * n, 2))
                classes = [('1.2.840.10008.5.1.4.1.1.%d' % i).encode() for i in range(1, n + 1)]
                rq = libmap.tree_to_lib(F.assoc_rq_tree(
                    contexts=[(i, c, (ts,)) for i, c in zip(ids, classes)], max_len=max_len or 16384,
                    calling=b'LOCAL', called=b'REMOTE'))
                rq.called_presentation_address = ('peer.example', 104)
                ac = R.build_pdu(F.assoc_ac_tree(contexts=[(i, 0, ts) for i in ids], max_len=16384,
                                                 called=b'REMOTE', calling=b'LOCAL'))
                sim = simnet.Sim('requestor', [('user', rq), ('bytes', ac)], max_pdu_length=max_len)
                sim.run()
                res.evaluations += 1
                res.distinct.add('big-accept|%d|%s|%d' % (n, ts.decode()[-4:], max_len))
                res.count('oracle.large-reply-over-transport')
                kinds = [i[0] for i in sim.indications]
                if sim.outcome != 'end-of-script' or kinds != ['A-ASSOCIATE-AC'] or sim.state() + 1 != 6:
                    res.violation('large-reply-not-delivered', 'C11.reply',
                                  'entity configured with maximum length %d proposes %d contexts; the %d-byte '
                                  'A-ASSOCIATE-AC that accepts them gives indications %r, state Sta%d, run() %s %s'
                                  % (max_len, n, len(ac), kinds, sim.state() + 1, sim.outcome, sim.error or ''), case)
