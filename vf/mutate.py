"""Structure-aware mutators over valid PDU byte strings (C12 workload)."""
from __future__ import annotations

import struct

from . import fixtures as F, gen, refcodec as R


def item_headers(raw):
    """Offsets of every item / sub-item header (type, rsv, len16) inside an
    A-ASSOCIATE-RQ/AC PDU: list of (offset, depth, type)."""
    out = []

    def walk(pos, end, depth):
        while pos + 4 <= end:
            itype = raw[pos]
            length = struct.unpack('>H', raw[pos + 2:pos + 4])[0]
            out.append((pos, depth, itype))
            body = pos + 4
            stop = min(body + length, end)
            if itype in (0x20, 0x21):
                walk(body + 4, stop, depth + 1)
            elif itype == 0x50:
                walk(body, stop, depth + 1)
            pos = body + length
    if raw and raw[0] in (1, 2) and len(raw) > 74:
        walk(74, len(raw), 0)
    return out


def pdv_headers(raw):
    """Offsets of PDV items (len32, ctx, hdr) in a P-DATA-TF PDU."""
    out = []
    pos = 6
    while pos + 6 <= len(raw):
        length = struct.unpack('>I', raw[pos:pos + 4])[0]
        out.append(pos)
        if length > len(raw):
            break
        pos += 4 + length
    return out


def fix_outer(raw):
    if len(raw) < 6:
        return raw
    return raw[:2] + struct.pack('>I', len(raw) - 6) + raw[6:]


def base_pdus(r):
    """A valid PDU to start from: (kind, bytes)."""
    k = r.random()
    if k < 0.25:
        t = r.choice([1, 2])
        tree = gen.gen_assoc(r, t, canonical=True)
        return 'assoc%d' % t, R.build_pdu(tree)
    if k < 0.35:
        sym = r.choice(['pRQ', 'pAC', 'pRQv2', 'pRQv3'])
        return sym, F.PEER[sym]
    if k < 0.7:
        # P-DATA-TF carrying (part of) a DIMSE message
        which = r.random()
        if which < 0.4:
            cmd, data = F.echo_rq_command(r.randrange(65536)), None
        elif which < 0.8:
            cmd = F.store_rq_command(r.randrange(65536))
            data = bytes(r.getrandbits(8) for _ in range(r.choice([1, 8, 30, 100])))
        else:
            cmd, data = F.echo_rsp_command(r.randrange(65536)), None
        pdvs = R.fragment(cmd, data, r.choice([0, 16, 30, 64]), r.choice([1, 3, 5]))
        n = len(pdvs)
        take = r.randrange(1, n + 1)
        start = r.randrange(0, n - take + 1)
        return 'pdata', R.build_pdu({'type': 4, 'rsv': 0, 'pdvs': pdvs[start:start + take]})
    sym = r.choice(['pRJ', 'pRELRQ', 'pRELRP', 'pABORT', 'pUNK', 'pINV'])
    return sym, F.PEER[sym]


MUTATORS = []


def mutator(fn):
    MUTATORS.append(fn)
    return fn


@mutator
def m_truncate(r, raw):
    if len(raw) < 2:
        return raw
    return raw[:r.randrange(1, len(raw))]


@mutator
def m_truncate_fixed(r, raw):
    if len(raw) < 8:
        return raw
    return fix_outer(raw[:r.randrange(6, len(raw))])


@mutator
def m_outer_length(r, raw):
    if len(raw) < 6:
        return raw
    true = len(raw) - 6
    val = r.choice([0, 1, max(true - 1, 0), max(true // 2, 0), true + 1, true + 100, 0xFFFFFFFF,
                    0x7FFFFFFF, 65536])
    return raw[:2] + struct.pack('>I', val) + raw[6:]


@mutator
def m_item_length(r, raw):
    heads = item_headers(raw)
    if not heads:
        return m_outer_length(r, raw)
    pos, depth, itype = r.choice(heads)
    true = struct.unpack('>H', raw[pos + 2:pos + 4])[0]
    val = r.choice([0, 1, max(true - 1, 0), true + 1, true + 7, 0xFFFF, true // 2])
    out = raw[:pos + 2] + struct.pack('>H', val) + raw[pos + 4:]
    return out


@mutator
def m_item_length_and_resize(r, raw):
    heads = item_headers(raw)
    if not heads:
        return m_truncate_fixed(r, raw)
    pos, depth, itype = r.choice(heads)
    true = struct.unpack('>H', raw[pos + 2:pos + 4])[0]
    if r.random() < 0.5:
        # drop bytes from the item body but keep its declared length
        cut = r.randrange(0, true + 1)
        out = raw[:pos + 4 + cut] + raw[pos + 4 + true:]
    else:
        out = raw[:pos + 4] + bytes(r.getrandbits(8) for _ in range(r.randrange(1, 9))) + raw[pos + 4:]
    return fix_outer(out)


@mutator
def m_type_bytes(r, raw):
    if not raw:
        return raw
    heads = item_headers(raw)
    if heads and r.random() < 0.6:
        pos, depth, itype = r.choice(heads)
        val = r.choice([0, 0x11, 0x22, 0x31, 0x41, 0x57, 0x5A, 0xFF, r.randrange(256)])
        return raw[:pos] + bytes([val]) + raw[pos + 1:]
    val = r.choice([0, 8, 9, 0x10, 0x50, 0xFF, r.randrange(8, 256)])
    return bytes([val]) + raw[1:]


@mutator
def m_bitflips(r, raw):
    if not raw:
        return raw
    b = bytearray(raw)
    if r.random() < 0.5:
        for _ in range(r.choice([1, 1, 2, 4, 8])):
            i = r.randrange(len(b))
            b[i] ^= 1 << r.randrange(8)
    else:
        start = r.randrange(len(b))
        for i in range(start, min(len(b), start + r.randrange(1, 12))):
            b[i] = r.getrandbits(8)
    return bytes(b)


@mutator
def m_non_ascii(r, raw):
    b = bytearray(raw)
    if raw and raw[0] in (1, 2) and len(raw) > 74:
        if r.random() < 0.4:
            start = r.choice([10, 26])
            for i in range(start, start + r.randrange(1, 16)):
                b[i] = r.choice([0x80, 0xC3, 0xFF, 0xE9, 0xA0])
        else:
            heads = [h for h in item_headers(raw) if h[2] in (0x10, 0x30, 0x40, 0x52, 0x55, 0x58, 0x59)]
            if heads:
                pos, depth, itype = r.choice(heads)
                length = struct.unpack('>H', raw[pos + 2:pos + 4])[0]
                for i in range(pos + 4, min(pos + 4 + length, len(b))):
                    if r.random() < 0.5:
                        b[i] = r.choice([0x80, 0xC3, 0xFF, 0xE9, 0xFE])
    return bytes(b)


@mutator
def m_pdv(r, raw):
    if not raw or raw[0] != 4:
        return m_bitflips(r, raw)
    heads = pdv_headers(raw)
    if not heads:
        return raw
    pos = r.choice(heads)
    k = r.random()
    if k < 0.35:
        true = struct.unpack('>I', raw[pos:pos + 4])[0]
        val = r.choice([0, 1, 2, max(true - 1, 0), true + 1, true + 1000, 0xFFFFFFFF])
        out = raw[:pos] + struct.pack('>I', val) + raw[pos + 4:]
        return out if r.random() < 0.5 else fix_outer(out)
    if k < 0.6:
        # message control header
        if pos + 5 < len(raw):
            val = r.choice([4, 5, 6, 7, 8, 0x10, 0x80, 0xFF, 2, 0, 1, 3])
            return raw[:pos + 5] + bytes([val]) + raw[pos + 6:]
        return raw
    if k < 0.7:
        # context id
        return raw[:pos + 4] + bytes([r.choice([0, 2, 255, r.randrange(256)])]) + raw[pos + 5:]
    # payload replaced
    true = struct.unpack('>I', raw[pos:pos + 4])[0]
    body_end = min(pos + 4 + true, len(raw))
    hdr = raw[pos + 5:pos + 6] or b'\x03'
    kind = r.random()
    if kind < 0.25:
        payload = b''
    elif kind < 0.5:
        payload = bytes(r.getrandbits(8) for _ in range(r.randrange(1, 40)))
    elif kind < 0.75:
        # command set without command field / data set type, or unknown command field
        fields = {R.TAG_AFFECTED_SOP_CLASS: '1.2.840.10008.1.1', R.TAG_MESSAGE_ID: 1}
        if r.random() < 0.5:
            fields[R.TAG_COMMAND_FIELD] = r.choice([0x0002, 0x7777, 0xFFFF, 0x8002])
        if r.random() < 0.5:
            fields[R.TAG_DATA_SET_TYPE] = r.choice([0x0101, 0x0001, 0xFFFF])
        payload = R.build_command_set(fields)
    else:
        cmd = F.echo_rq_command()
        payload = cmd[:r.randrange(0, len(cmd))]
    new_pdv = struct.pack('>IB', len(payload) + 2, raw[pos + 4] if pos + 4 < len(raw) else 1) \
        + hdr + payload
    return fix_outer(raw[:pos] + new_pdv + raw[body_end:])


@mutator
def m_random(r, raw):
    n = r.choice([1, 2, 5, 6, 7, 10, 16, 74, 100, 300])
    body = bytes(r.getrandbits(8) for _ in range(n))
    k = r.random()
    if k < 0.4:
        return body
    t = r.choice([1, 2, 3, 4, 5, 6, 7, 0, 8, 0xFF])
    return bytes([t, 0]) + struct.pack('>I', n) + body


@mutator
def m_reorder_pdvs(r, raw):
    """data fragments before command fragments / duplicated last fragment."""
    if not raw or raw[0] != 4:
        return m_pdv(r, raw)
    try:
        tree = R.parse_pdu(raw)
    except R.RefError:
        return raw
    pdvs = list(tree['pdvs'])
    k = r.random()
    if k < 0.4:
        pdvs.reverse()
    elif k < 0.7 and pdvs:
        pdvs.append(pdvs[-1])
    else:
        pdvs.insert(0, {'ctx': 1, 'data': b'\x02' + b'DATA-BEFORE-COMMAND'})
    return R.build_pdu({'type': 4, 'rsv': 0, 'pdvs': pdvs})


@mutator
def m_long_digit_uid(r, raw):
    """A UID made of a long run of digits followed by a byte that is no UID character (UUID-derived
    UIDs are 39 digits long; peers pad with NUL): cheap to reject, unless validation backtracks."""
    if not raw or raw[0] not in (1, 2):
        return m_bitflips(r, raw)
    heads = [h for h, depth, itype in item_headers(raw) if itype in (0x30, 0x40, 0x10)]
    if not heads:
        return raw
    pos = r.choice(heads)
    old_len = struct.unpack('>H', raw[pos + 2:pos + 4])[0]
    digits = ''.join(r.choice('0123456789') for _ in range(r.choice([30, 38, 45, 58])))
    value = ('2.25.' + digits).encode()[:63] + r.choice([b'\0', b' ', b'x', b'.'])
    item = raw[pos:pos + 2] + struct.pack('>H', len(value)) + value
    out = raw[:pos] + item + raw[pos + 4 + old_len:]
    # enclosing presentation-context item length and outer length follow the change
    delta = len(value) - old_len
    for h, depth, itype in item_headers(raw):
        if itype in (0x20, 0x21) and h < pos <= h + 4 + struct.unpack('>H', raw[h + 2:h + 4])[0]:
            n = struct.unpack('>H', out[h + 2:h + 4])[0] + delta
            out = out[:h + 2] + struct.pack('>H', n & 0xFFFF) + out[h + 4:]
    return fix_outer(out)


@mutator
def m_deep_nesting(r, raw):
    """A complete command set that carries sequences of undefined length nested a few hundred levels
    deep (a few KB): structurally parseable, but not by a recursive parser with a finite stack."""
    if not raw or raw[0] != 4:
        return m_bitflips(r, raw)
    depth = r.choice([50, 200, 400, 900])
    inner = b''
    for _ in range(depth):
        inner = struct.pack('<HHI', 0x0009, 0x1001, 0xFFFFFFFF) + struct.pack('<HHI', 0xFFFE, 0xE000, 0xFFFFFFFF) \
            + inner + struct.pack('<HHI', 0xFFFE, 0xE00D, 0) + struct.pack('<HHI', 0xFFFE, 0xE0DD, 0)
    payload = F.echo_rq_command(r.randrange(65536)) + inner
    pdv = struct.pack('>IB', len(payload) + 2, r.choice([1, 3])) + b'\x03' + payload
    return fix_outer(raw[:6] + pdv)


def message_in_progress(r):
    """Valid leading PDUs of a C-STORE (command set complete, perhaps some of the data), then a
    mutated P-DATA-TF where its next fragment should be."""
    cmd = F.store_rq_command(r.randrange(1, 65536))
    data = bytes(r.getrandbits(8) for _ in range(r.choice([60, 200])))
    pdvs = R.fragment(cmd, data, r.choice([0, 64]), 3)
    ncmd = sum(1 for p in pdvs if p['data'][0] & 1)
    keep = r.randrange(ncmd, len(pdvs))                  # all of the command set, 0+ data fragments
    frames = [R.build_pdu({'type': 4, 'rsv': 0, 'pdvs': [p]}) for p in pdvs[:keep]]
    nxt = R.build_pdu({'type': 4, 'rsv': 0, 'pdvs': pdvs[keep:keep + 1]})
    frames.append(m_pdv(r, nxt))
    return 'store-in-progress/pdv', frames


def mutant_stream(r):
    """-> (label, [frames]) ; frames are the byte strings that make up the
    stream (each a mutated or valid PDU), kept separate for per-frame delivery."""
    if r.random() < 0.1:
        return message_in_progress(r)
    n = r.choice([1, 1, 1, 2, 3])
    frames = []
    labels = []
    for _ in range(n):
        kind, raw = base_pdus(r)
        if r.random() < 0.85:
            m = r.choice(MUTATORS)
            raw = m(r, raw)
            labels.append('%s/%s' % (kind, m.__name__[2:]))
        else:
            labels.append('%s/valid' % kind)
        frames.append(raw)
    return '+'.join(labels), frames
