"""Writes MANIFEST.json from the per-property modules (run by hand after adding a check)."""
import importlib
import json
import os
import sys

HOME = os.path.dirname(os.path.dirname(os.path.abspath(__file__)))
sys.path.insert(0, HOME)

NOT_YET = {}

META = {
    'C01': ('exploration', 'round-trip oracle (decode(encode(x)) == x, re-encode == bytes) over enumerated + seeded random PDU structures; per-item stream-consumption monitor',
            '4'),
}


def main():
    props = [json.loads(l) for l in open(os.path.join(HOME, 'properties.jsonl'))]
    checks = []
    na = []
    engines = {}
    for p in props:
        pid = p['id']
        try:
            mod = importlib.import_module('vf.%s' % pid.lower())
        except ImportError:
            na.append({'property_id': pid,
                       'reason': 'check not built yet in this round (planned: DESIGN.md section 4 %s); '
                                 'the technique applies, nothing is claimed until the monitor exists' % pid})
            continue
        checks.append({
            'property_id': pid,
            'quick_cmd': './check %s --tier quick' % pid,
            'thorough_cmd': './check %s --tier thorough' % pid,
            'evidence_file': 'evidence/%s.json' % pid,
            'replay_cmd_template': './check %s --replay {path}' % pid,
            'engine': getattr(mod, 'ENGINE', 'vf'),
            'level_claimed': {'category': mod.LEVEL, 'text': mod.LEVEL_TEXT,
                              'design_ref': 'DESIGN.md section 4, %s' % pid},
            'level_note': mod.LEVEL_NOTE,
            'technique': mod.TECHNIQUE,
        })
    manifest = {
        'version': 1,
        'setup_cmd': './setup.sh',
        'hooks': {
            'guard': 'PYNETDICOM2_VERIF',
            'enable': 'no source hooks: every observation point is reached from outside '
                      '(module attributes, constructor arguments, subclassing); checks run the '
                      'working tree of /repo via PYTHONPATH=/repo (PYNETDICOM2_VERIF=1 is exported '
                      'by ./check but nothing in the repository reads it)',
            'baseline_off_cmd': 'cd /repo && /venv/bin/python -m pytest -ra -q -p no:cacheprovider '
                                '--timeout=900 --continue-on-collection-errors',
            'source_commits': [],
            'add_only': True,
        },
        'engines': json.load(open(os.path.join(HOME, 'vf', 'engines.json'))),
        'checks': checks,
        'not_applicable': na,
        'notes': 'Runtime monitoring only: monitors and reference oracles observing executions of the '
                 'real library. Genuine defects found are repaired by fix: commits in /repo or listed '
                 'in KNOWN_FINDINGS.txt. See DESIGN.md.',
    }
    with open(os.path.join(HOME, 'MANIFEST.json'), 'w') as f:
        json.dump(manifest, f, indent=1)
    print('checks:', [c['property_id'] for c in checks])
    print('not yet:', [n['property_id'] for n in na])


if __name__ == '__main__':
    main()
