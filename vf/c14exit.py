"""C14 - how a requested association is left.

"Leaving a requested association normally releases it whereas leaving it through
an error aborts it" - for every error, not just an application's own: the errors
tried here are the library's own exception types (raised by hand, raised by a
*second* association nested inside the block whose peer aborted / refused /
released / fell silent) and a genuine receive time-out of the association itself
(followed by either the error leaving the block or the application catching it
and leaving normally).  The observer is the peer of the association: it must
read exactly one A-ABORT (source 0) respectively one A-RELEASE-RQ.
"""
from __future__ import annotations

import threading

from . import refcodec as R, svc, tcpnet
from .common import rng

HAND = ['aborted-0-0', 'aborted-2-3', 'released', 'rejected', 'timeout', 'netdicom', 'pdu-processing',
        'dimse-processing', 'event-handling', 'class-not-supported', 'value-error', 'os-error',
        'connection-reset', 'key-error']
NESTED = ['nested-abort', 'nested-reject', 'nested-release', 'nested-silent',
          # the second association is requested from the SAME entity object and ends first
          'nested-same-entity-abort', 'nested-same-entity-normal', 'nested-same-entity-then-error']
REAL = ['real-timeout-propagates', 'real-timeout-caught', 'real-timeout-caught-then-echo']
# the acceptor accepts the association but none of the proposed contexts
NOCTX = ['no-context-normal', 'no-context-error']
# the block is left normally, but the peer never confirms the release
UNANSWERED = ['release-unanswered']
# the block is left normally while the *caller* is busy with an error of its own: the association is
# requested inside an ``except`` clause / inside a ``finally`` that runs because of an unrelated error
HANDLING = ['normal-while-handling', 'normal-in-finally-of-error']
VARIANTS = HAND + NESTED + REAL + NOCTX + UNANSWERED + HANDLING
POINTS = ['before', 'between', 'during']
ACCEPTORS = ['lib', 'refpeer']


class Foreign(Exception):
    pass


def make_exc(kind):
    from pynetdicom2 import exceptions
    return {
        'aborted-0-0': lambda: exceptions.AssociationAbortedError(0, 0),
        'aborted-2-3': lambda: exceptions.AssociationAbortedError(2, 3),
        'released': exceptions.AssociationReleasedError,
        'rejected': lambda: exceptions.AssociationRejectedError(1, 1, 1),
        'timeout': exceptions.DCMTimeoutError,
        'netdicom': exceptions.NetDICOMError,
        'pdu-processing': exceptions.PDUProcessingError,
        'dimse-processing': exceptions.DIMSEProcessingError,
        'event-handling': exceptions.EventHandlingError,
        'class-not-supported': exceptions.ClassNotSupportedError,
        'value-error': lambda: ValueError('application'),
        'os-error': lambda: OSError('application'),
        'connection-reset': lambda: ConnectionResetError('somebody else\'s connection'),
        'key-error': lambda: KeyError('application'),
    }[kind]()


def n_cases():
    return len(VARIANTS) * len(POINTS) * len(ACCEPTORS)


def run_case(res, case, attempt=0):
    from pynetdicom2 import applicationentity, asceprovider, exceptions, sopclass, statuses
    import pydicom
    j, seed = case['index'], case['seed']
    r = rng(seed, 'c14exit', j)
    variant = VARIANTS[j % len(VARIANTS)]
    point = POINTS[(j // len(VARIANTS)) % len(POINTS)]
    acceptor = ACCEPTORS[(j // (len(VARIANTS) * len(POINTS))) % 2]
    if variant in REAL or variant in NOCTX or variant in UNANSWERED:
        acceptor = 'refpeer'          # only the reference peer can fall silent on purpose
    if variant in NOCTX:
        point = 'before'
    case = dict(case, kind='exit', variant=variant, point=point, acceptor=acceptor)
    where = 'exit %s point=%s acceptor=%s' % (variant, point, acceptor)
    if not attempt:
        res.evaluations += 1
    res.distinct.add('exit|%s|%s|%s' % (variant, point, acceptor))
    net = tcpnet.Net(seed=seed * 131 + j, jitter=r.choice([0, 0, 0.002]) * (0 if attempt else 1))
    server_errors = []
    state = {'error': None, 'planned_timeout': False, 'inner': None, 'late': None}
    peer_seen = []

    orig_receive = asceprovider.AssociationAcceptor.receive

    def receive(self):
        try:
            return orig_receive(self)
        except Exception as exc:
            server_errors.append(exc)
            raise

    class Server(tcpnet.TapServerMixin, applicationentity.AE):
        def on_receive_store(self, context, ds):
            return statuses.SUCCESS

    def dataset():
        ds = pydicom.Dataset()
        ds.SOPClassUID = svc.CT
        ds.SOPInstanceUID = '1.2.826.141.%d' % j
        ds.PatientName = 'C14X^%d' % j
        ds.ImageComments = 'y' * 2500
        return ds

    def echo_reply(peer, ctx, cmd):
        peer.send_dimse(ctx, {R.TAG_AFFECTED_SOP_CLASS: svc.VERIFICATION, R.TAG_COMMAND_FIELD: 0x8030,
                              R.TAG_MESSAGE_ID_RSP: cmd.get(R.TAG_MESSAGE_ID), R.TAG_STATUS: 0})

    def outer_handler(peer):
        """Reference acceptor of the association under observation."""
        peer.accept(max_len=1024, choose=(lambda item: (3, b'')) if variant in NOCTX else None)
        silent_once = variant in REAL
        while True:
            try:
                item = peer.recv_dimse()
            except tcpnet.PeerClosed:
                peer_seen.append('closed')
                return
            if isinstance(item, dict):
                peer_seen.append((item['type'], item.get('source'), item.get('reason')))
                if item['type'] == 5 and variant in UNANSWERED:
                    # never confirmed: whatever the requestor does once it gives up is recorded
                    try:
                        nxt = peer.recv_pdu()
                        peer_seen.append((nxt['type'], nxt.get('source'), nxt.get('reason')))
                    except tcpnet.PeerClosed:
                        peer_seen.append('closed')
                    return
                if item['type'] == 5:
                    peer.send_pdu({'type': 6})
                    peer.wait_closed(3.0)
                return
            ctx, cmd, data, lengths, problems = item
            field = cmd.get(R.TAG_COMMAND_FIELD)
            if field == 0x0030:
                if silent_once and cmd.get(R.TAG_MESSAGE_ID) == 77:
                    silent_once = False         # this request is never answered
                    continue
                echo_reply(peer, ctx, cmd)
            elif field == 0x0001:
                peer.send_dimse(ctx, {R.TAG_AFFECTED_SOP_CLASS: svc.CT, R.TAG_COMMAND_FIELD: 0x8001,
                                      R.TAG_MESSAGE_ID_RSP: cmd.get(R.TAG_MESSAGE_ID), R.TAG_STATUS: 0,
                                      R.TAG_AFFECTED_SOP_INSTANCE: cmd.get(R.TAG_AFFECTED_SOP_INSTANCE)})

    def inner_handler(peer):
        """Acceptor of the second, nested association: it ends that one."""
        if variant == 'nested-reject':
            peer.expect(1)
            peer.send_pdu({'type': 3, 'result': 1, 'source': 1, 'reason': 2})
            peer.wait_closed(3.0)
            return
        peer.accept(max_len=1024)
        try:
            item = peer.recv_dimse()
        except tcpnet.PeerClosed:
            return
        if variant in ('nested-same-entity-normal', 'nested-same-entity-then-error'):
            ictx, icmd = item[0], item[1]
            echo_reply(peer, ictx, icmd)
            try:
                nxt = peer.recv_pdu()
                if nxt['type'] == 5:
                    peer.send_pdu({'type': 6})
            except tcpnet.PeerClosed:
                pass
            return
        if variant in ('nested-abort', 'nested-same-entity-abort'):
            peer.abort(2, 6)
            peer.wait_closed(3.0)
        elif variant == 'nested-release':
            peer.send_pdu({'type': 5})
            try:
                peer.recv_pdu()
            except tcpnet.PeerClosed:
                pass
        elif variant == 'nested-silent':
            try:
                peer.recv_pdu()          # whatever the requestor does once it gave up
            except (tcpnet.PeerClosed, OSError):
                pass

    def make_client(timeout):
        client = applicationentity.ClientAE('C14SCU', supported_ts=['1.2.840.10008.1.2'], max_pdu_length=256)
        client.timeout = timeout
        client.add_scu(sopclass.verification_scu)
        client.add_scu(sopclass.storage_scu, [svc.CT])
        return client

    def body(assoc, inner_remote):
        if point in ('between', 'during'):
            st = assoc.get_scu(svc.VERIFICATION)(1)
            state['echo'] = int(st)
        if point == 'during':
            st = assoc.get_scu(svc.CT)(dataset(), 5)
            state['store'] = int(st)
        if variant in UNANSWERED:
            state['planned_timeout'] = True
            assoc.ae.timeout = 0.5           # give up on the release confirmation soon
            return
        if variant == 'no-context-normal' or variant in HANDLING:
            return
        if variant == 'no-context-error':
            assoc.get_scu(svc.VERIFICATION)          # raises: no context was accepted for it
        if variant in HAND:
            raise make_exc(variant)
        if variant in NESTED:
            same = 'same-entity' in variant
            inner_client = assoc.ae if same else make_client(0.4 if variant == 'nested-silent' else 5)
            with inner_client.request_association(inner_remote) as inner:
                state['inner'] = 'established'
                inner.get_scu(svc.VERIFICATION)(3)
            if variant == 'nested-same-entity-normal':
                # the inner association is over; this one is still usable and ends normally
                state['late'] = int(assoc.get_scu(svc.VERIFICATION)(4))
                return
            raise Foreign('the nested association ended without an error')
        # a genuine time-out of this very association
        assoc.ae.timeout = 0.4
        try:
            assoc.get_scu(svc.VERIFICATION)(77)
        except exceptions.DCMTimeoutError:
            state['planned_timeout'] = True
            assoc.ae.timeout = 5
            if variant == 'real-timeout-propagates':
                raise
        else:
            raise Foreign('the silent peer was answered for')
        if variant == 'real-timeout-caught-then-echo':
            st = assoc.get_scu(svc.VERIFICATION)(78)
            state['late'] = int(st)

    asceprovider.AssociationAcceptor.receive = receive
    inner_srv = outer_srv = None
    harness_error = None
    taps = []
    try:
        with tcpnet.instrument(net):
            try:
                inner_srv = tcpnet.PeerServer(inner_handler) if variant in NESTED else None
                inner_remote = {'aet': 'INNER', 'address': '127.0.0.1',
                                'port': inner_srv.port if inner_srv else 1}
                client = make_client(5)

                def drive(port):
                    remote = {'aet': 'C14SCP', 'address': '127.0.0.1', 'port': port}

                    def go():
                        try:
                            with client.request_association(remote) as assoc:
                                body(assoc, inner_remote)
                        except Exception as exc:
                            state['error'] = exc
                    if variant == 'normal-while-handling':
                        try:
                            raise Foreign('an unrelated failure the application is recovering from')
                        except Foreign:
                            go()
                    elif variant == 'normal-in-finally-of-error':
                        try:
                            try:
                                raise Foreign('an unrelated failure on its way up')
                            finally:
                                go()
                        except Foreign:
                            pass
                    else:
                        go()
                if acceptor == 'lib':
                    server = Server('C14SCP', 0, max_pdu_length=1024)
                    server.net = net
                    server.timeout = 5
                    server.add_scp(sopclass.verification_scp)
                    server.add_scp(sopclass.storage_scp)
                    with tcpnet.serving(server):
                        port = server.port
                        drive(port)
                        tcpnet.wait_quiet(0, 3.0)
                else:
                    outer_srv = tcpnet.PeerServer(outer_handler)
                    port = outer_srv.port
                    drive(port)
                    outer_srv.close()
                if inner_srv:
                    inner_srv.close()
                taps = [t for t in net.taps if t.role == 'client'
                        and getattr(t, 'peer_address', (None, None))[1] == port]
            except Exception as exc:
                import traceback
                harness_error = '%s: %s\n%s' % (type(exc).__name__, exc, traceback.format_exc()[-600:])
    finally:
        asceprovider.AssociationAcceptor.receive = orig_receive
        for s in (inner_srv, outer_srv):
            if s is not None:
                s.close()
    tcpnet.wait_quiet(0, 3.0)
    error = state['error']
    peer_errors = [e for s in (inner_srv, outer_srv) if s is not None for e in s.errors]
    unplanned = tcpnet.is_timeout(error) and not (state['planned_timeout'] or variant in ('timeout',
                                                                                           'nested-silent'))
    if (unplanned or any('timed out' in e for e in peer_errors)) and attempt < 2:
        res.count('flaky-timeouts')
        return run_case(res, {'index': j, 'seed': seed}, attempt + 1)
    if harness_error or peer_errors:
        res.violation('reference-peer-confused:exit', 'C14.peer', '%s: %s' % (
            where, (harness_error or peer_errors[0])[:500]), case)
        return
    csent = [p for t in taps for p in t.sent_pdus()]
    ends = [(p['type'], p.get('source'), p.get('reason')) for p in csent if p['type'] in (5, 7)]
    res.sample({'case': case, 'client_error': type(error).__name__, 'ends_written': ends,
                'peer_saw': peer_seen[-2:], 'acceptor_errors': [type(e).__name__ for e in server_errors]},
               limit=8)
    res.count('oracle.context-manager')
    normal_exit = variant in ('real-timeout-caught', 'real-timeout-caught-then-echo', 'nested-same-entity-normal',
                              'no-context-normal') or variant in HANDLING
    # --- the error (or its absence) the application sees
    want_type = {'nested-abort': exceptions.AssociationAbortedError,
                 'nested-same-entity-abort': exceptions.AssociationAbortedError,
                 'nested-same-entity-then-error': Foreign,
                 'no-context-error': exceptions.ClassNotSupportedError,
                 'nested-reject': exceptions.AssociationRejectedError,
                 'nested-release': exceptions.AssociationReleasedError,
                 'nested-silent': exceptions.DCMTimeoutError,
                 'real-timeout-propagates': exceptions.DCMTimeoutError}.get(variant)
    if variant in HAND:
        want_type = type(make_exc(variant))
    if variant in UNANSWERED:
        # release requested, never confirmed: the requestor gives up, tells the peer (A-ABORT), and
        # leaves nothing behind - no provider thread, no open connection
        res.count('oracle.unconfirmed-release')
        if not isinstance(error, exceptions.DCMTimeoutError):
            res.violation('error-not-propagated:exit', 'C14.context-manager', '%s: block left with %s: %s' % (
                where, type(error).__name__, error), case)
        if [e[0] for e in ends] != [5, 7] or tcpnet.provider_threads():
            res.violation('unconfirmed-release-leaves-association-open', 'C14.context-manager',
                          '%s: requestor wrote %r, %d provider thread(s) still alive' % (
                              where, ends, len(tcpnet.provider_threads())), case)
        return
    if normal_exit:
        res.count('oracle.exit-after-timeout-releases')
        if error is not None:
            res.violation('normal-exit-raises:after-timeout', 'C14.context-manager', '%s: %s: %s' % (
                where, type(error).__name__, error), case)
        if variant in ('real-timeout-caught-then-echo', 'nested-same-entity-normal') and state['late'] != 0:
            res.violation('association-unusable-after-timeout', 'C14.context-manager',
                          '%s: the echo after the time-out returned %r' % (where, state['late']), case)
        if ends != [(5, None, None)]:
            res.violation('normal-exit-does-not-release:after-timeout', 'C14.context-manager',
                          '%s: requestor wrote %r at the end, peer saw %r' % (where, ends, peer_seen), case)
        return
    res.count('oracle.exit-through-%s' % ('library-error' if variant not in (
        'value-error', 'os-error', 'connection-reset', 'key-error', 'nested-same-entity-then-error')
        else 'foreign-error'))
    if type(error) is not want_type:
        res.violation('error-not-propagated:exit', 'C14.context-manager', '%s: block left with %s: %s' % (
            where, type(error).__name__, error), case)
    if variant in ('nested-abort', 'nested-same-entity-abort') and isinstance(error, exceptions.AssociationAbortedError) and \
            (error.source, error.reason_diag) != (2, 6):
        res.violation('abort-fields-altered:nested', 'C14.abort', '%s: error carries %r' % (
            where, (error.source, error.reason_diag)), case)
    if variant == 'nested-reject' and isinstance(error, exceptions.AssociationRejectedError) and \
            (error.result, error.source, error.diagnostic) != (1, 1, 2):
        res.violation('rejection-fields-altered:nested', 'C14.reject', '%s: error carries %r' % (
            where, (error.result, error.source, error.diagnostic)), case)
    if ends != [(7, 0, 0)]:
        res.violation('exceptional-exit-does-not-abort:%s' % (
            'own-timeout' if variant in REAL else 'nested' if variant in NESTED else 'library-error'
            if (want_type or Foreign).__module__.startswith('pynetdicom2') else 'foreign-error'),
            'C14.context-manager', '%s: requestor wrote %r at the end of the association left through %s' % (
                where, ends, type(error).__name__), case)
    if acceptor == 'lib':
        ab = [e for e in server_errors if isinstance(e, exceptions.AssociationAbortedError)]
        if len(ab) != 1 or (ab[0].source, ab[0].reason_diag) != (0, 0):
            res.violation('abort-not-surfaced-at-acceptor:exit', 'C14.abort', '%s: acceptor receive() raised %r'
                          % (where, [(type(e).__name__, getattr(e, '__dict__', None))
                                     for e in server_errors]), case)
    elif (7, 0, 0) not in peer_seen:
        res.violation('abort-not-seen-by-peer:exit', 'C14.abort', '%s: the peer read %r' % (where, peer_seen),
                      case)
