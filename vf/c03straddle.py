"""C03 - a segment boundary that straddles a local step.

The transport may deliver the first part of a PDU, the local user may then hand
a primitive to the provider, and only afterwards the rest of the PDU arrives
(the peer sent it before it could know about the local step).  For the provider
that must be the same as the whole PDU arriving after the local step: the part
that arrived early has no effect of its own.  Baseline = local step first, then
the whole burst; variants = every offset inside the first PDU of the burst.
"""
from __future__ import annotations

from . import fixtures as F, refcodec as R

RECV_SIZES = [65536, 7]


def _zero_data(ctx, n, last=True):
    # pixel-data like content: runs of zero bytes (which would parse as "PDU type 0, length 0")
    return F.pdata([F.pdv(ctx, 2 if last else 0, b'\0' * n)])


def _small_numbers(ctx):
    # content whose bytes 2..5 at many offsets form small big-endian numbers
    return F.pdata([F.pdv(ctx, 2, bytes([7, 0, 0, 0, 0, 4, 1, 2, 3, 4] * 6))])


def corpus():
    P = F.PEER
    store_cmd = F.pdata([F.pdv(1, 3, F.store_rq_command(5))])
    echo_rsp = F.pdata([F.pdv(1, 3, F.echo_rsp_command())])
    acc = [('peer', [P['pRQ']]), ('user', 'uAC')]
    out = {}
    for tag, data in (('zeros', _zero_data(1, 66)), ('numbers', _small_numbers(1))):
        out['S1-abort-during-data-' + tag] = ('acceptor', acc + [('peer', [store_cmd])], 'uABORT',
                                              [data, P['pRELRQ']], [('close',)])
        out['S2-release-during-data-' + tag] = ('acceptor', acc + [('peer', [store_cmd])], 'uRELRQ',
                                                [data], [('peer', [P['pRELRP']])])
        out['S3-send-during-data-' + tag] = ('acceptor', acc + [('peer', [store_cmd])], 'uDATA',
                                             [data], [('peer', [P['pRELRQ']]), ('user', 'uRELRP'), ('close',)])
    out['S4-requestor-abort-during-reply'] = ('requestor', [('peer', [P['pAC']]), ('user', 'uDATA')], 'uABORT',
                                              [echo_rsp], [('close',)])
    out['S5-requestor-release-during-reply'] = ('requestor', [('peer', [P['pAC']]), ('user', 'uDATA')],
                                                'uRELRQ', [echo_rsp], [('peer', [P['pRELRP']])])
    out['S6-accept-during-first-request'] = ('acceptor', [('peer', [P['pRQ']])], 'uAC', [P['pDATA']],
                                             [('user', 'uDATA'), ('peer', [P['pRELRQ']]), ('user', 'uRELRP'),
                                              ('close',)])
    out['S7-reject-during-abort'] = ('acceptor', [('peer', [P['pRQ']])], 'uRJ', [P['pABORT']], [])
    out['S8-abort-during-release-request'] = ('acceptor', acc, 'uABORT', [P['pRELRQ']], [('close',)])
    out['S9-release-reply-during-abort'] = ('acceptor', acc + [('peer', [P['pRELRQ']])], 'uRELRP',
                                            [P['pABORT']], [])
    return out


def steps_for(name, x):
    role, prefix, user, burst, suffix = corpus()[name]
    blob = b''.join(burst)
    if x == 0:
        return role, prefix + [('user', user), ('peer', [blob])] + suffix
    return role, prefix + [('peer', [blob[:x]]), ('user', user), ('peer', [blob[x:]])] + suffix


def simultaneous(res, name, replay_case=None):
    """The burst arrives and the user issues its primitive in the same instant: the provider may
    take them in either order, but the outcome is that of one of the two orders."""
    from . import c03
    role, prefix, user, burst, suffix = corpus()[name]
    orders = {'burst-first': prefix + [('peer', [b''.join(burst)]), ('user', user)] + suffix,
              'user-first': prefix + [('user', user), ('peer', [b''.join(burst)])] + suffix}
    bases = {}
    for label, steps in orders.items():
        obs, _ = c03.observe(role, steps, None, 'whole', 65536, False)
        if obs['outcome'] == 'end-of-script':
            bases[label] = obs
    if not bases:
        return
    case = {'straddle': True, 'conversation': name, 'x': 'simultaneous', 'recv': 65536}
    obs, delivered = c03.observe(role, prefix + [('both', burst, user)] + suffix, None, 'whole', 65536, False)
    res.evaluations += 1
    res.distinct.add('straddle|%s|simultaneous' % name)
    res.count('oracle.simultaneous-local-step')
    channels = ('outcome', 'events', 'indications', 'wire', 'state', 'closed', 'timer')
    if not any(all(obs[c] == b[c] for c in channels) for b in bases.values()):
        label, b = sorted(bases.items())[0]
        diff = [c for c in channels if obs[c] != b[c]]
        res.violation('simultaneous-step-matches-neither-order', 'C03.differential',
                      '%s: burst and local %s at the same moment: differs from both orders (from %s in %r)%s'
                      % (name, user, label, diff, (' error=%s' % obs['error']) if obs['error'] else ''), case)


def run(res, tier, seed, replay_case=None):
    from . import c03
    names = sorted(corpus()) if replay_case is None else [replay_case['conversation']]
    for name in names:
        role, prefix, user, burst, suffix = corpus()[name]
        _, base_steps = steps_for(name, 0)
        base, _ = c03.observe(role, base_steps, None, 'whole', 65536, False)
        if base['outcome'] != 'end-of-script':
            res.violation('baseline-run-failed', 'C03.baseline', 'conversation %s: local step first ended with '
                          '%s %s' % (name, base['outcome'], base['error']),
                          {'straddle': True, 'conversation': name, 'x': 0, 'recv': 65536})
            continue
        first = len(burst[0])
        if replay_case is None or replay_case['x'] == 'simultaneous':
            simultaneous(res, name, replay_case)
        if replay_case is not None and replay_case['x'] == 'simultaneous':
            continue
        for recv in RECV_SIZES:
            for x in range(1, first):
                case = {'straddle': True, 'conversation': name, 'x': x, 'recv': recv}
                if replay_case is not None and (replay_case['x'], replay_case['recv']) != (x, recv):
                    continue
                _, steps = steps_for(name, x)
                obs, delivered = c03.observe(role, steps, None, 'whole', recv, False)
                res.evaluations += 1
                res.distinct.add('straddle|%s|%d|%d' % (name, x, recv))
                res.count('oracle.straddled-local-step')
                res.count('monitor.pdu-count-conservation', delivered['checks'])
                where = '%s: first %d of the %d bytes of the PDU delivered before the local %s, recv=%d' % (
                    name, x, first, user, recv)
                if delivered['bad']:
                    res.violation('pdu-count-conservation:straddle', 'C03.conservation',
                                  '%s: %s' % (where, delivered['bad']), case)
                for channel in ('outcome', 'events', 'indications', 'wire', 'state', 'closed', 'timer'):
                    if obs[channel] != base[channel]:
                        a, b = obs[channel], base[channel]
                        if channel == 'wire':
                            a, b = a[-48:].hex() + '..(%d)' % len(a), b[-48:].hex() + '..(%d)' % len(b)
                        elif channel == 'indications':
                            a, b = [i[:3] for i in a], [i[:3] for i in b]
                        res.violation('segmentation-changes-%s:straddle' % channel, 'C03.differential',
                                      '%s: %s = %r, whole PDU after the local step gives %r%s' % (
                                          where, channel, a, b,
                                          (' error=%s' % obs['error']) if obs['error'] else ''), case)
                        break
