"""Seeded structured generators for PDU trees (see refcodec for the tree form)
and enumerators of the small finite spaces (sub-item adjacency, item orders).
"""
from __future__ import annotations

import itertools
import struct

SUB_KINDS = [0x51, 0x52, 0x53, 0x54, 0x55, 0x56, 0x58, 0x59, 'generic']
GENERIC_TYPES = [0x57] + list(range(0x5A, 0x100))

U8 = [0, 1, 2, 127, 128, 255]
U16 = [0, 1, 255, 256, 0x7FFF, 0x8000, 0xFFFF]
U32 = [0, 1, 65535, 65536, 2 ** 31 - 1, 2 ** 31, 2 ** 32 - 1]

IMPLICIT = b'1.2.840.10008.1.2'
EXPLICIT = b'1.2.840.10008.1.2.1'
BIGENDIAN = b'1.2.840.10008.1.2.2'
JPEG = b'1.2.840.10008.1.2.4.50'
APP_CONTEXT = b'1.2.840.10008.3.1.1.1'
VERIFICATION = b'1.2.840.10008.1.1'


def pick_int(r, boundary, hi):
    return r.choice(boundary) if r.random() < 0.5 else r.randrange(hi + 1)


def rand_uid(r, n=None):
    if n is None:
        n = r.choice([0, 1, 2, 17, 18, 63, 64]) if r.random() < 0.4 else r.randrange(0, 65)
    if n == 0:
        return b''
    chars = []
    for i in range(n):
        if 0 < i < n - 1 and chars[-1] != '.' and r.random() < 0.2:
            chars.append('.')
        else:
            chars.append(r.choice('0123456789'))
    return ''.join(chars).encode()


def rand_title(r, n=None):
    if n is None:
        n = r.randrange(0, 17)
    alphabet = 'ABCDEFGHIJKLMNOPQRSTUVWXYZ0123456789_-'
    s = ''.join(r.choice(alphabet + ' ') for _ in range(n))
    if s:
        s = r.choice(alphabet) + s[1:]
        s = s[:-1] + r.choice(alphabet)
        k = r.random()
        if k < 0.2:
            s = s.ljust(16)[:16]          # space padded to the field width, as PS3.8 prescribes
        elif k < 0.3 and len(s) > 2:
            s = s[:-2] + '  '             # trailing spaces inside the field
        elif k < 0.35 and len(s) > 1:
            s = ' ' + s[1:]               # leading space
    return s.encode()


def rand_text(r, n=None, alphabet='abcdefghijklmnopqrstuvwxyzABCDEFGHIJKLMNOPQRSTUVWXYZ0123456789._- '):
    if n is None:
        n = r.choice([0, 1, 2, 15, 16, 17]) if r.random() < 0.4 else r.randrange(0, 40)
    return ''.join(r.choice(alphabet) for _ in range(n)).encode()


def rand_utf8(r):
    """Text for the fields the standard defines as UTF-8 (user identity): a third of the values
    hold characters that take 2, 3 or 4 bytes."""
    base = rand_text(r).decode()
    if r.random() < 0.35:
        # (also text that is not in a Unicode normalisation form: base letter + combining mark,
        # ANGSTROM and OHM signs, decomposed Hangul - it travels as it is)
        extra = [r.choice(['\u00e9', '\u00fc', '\u00df', '\u0416', '\u65e5', '\u672c', '\U0001F600', 'e\u0301',
                           '\u212b', '\u2126', '\u1100\u1161', 'a\u0308\u0323'])
                 for _ in range(r.choice([1, 1, 2, 5]))]
        chars = list(base) + extra
        r.shuffle(chars)
        base = ''.join(chars)
    return base.encode('utf8')


def rand_bytes(r, n=None):
    if n is None:
        n = r.choice([0, 1, 2, 3]) if r.random() < 0.4 else r.randrange(0, 40)
    return bytes(r.getrandbits(8) for _ in range(n))


def gen_sub(r, kind=None, rsv=None):
    if kind is None:
        kind = r.choice(SUB_KINDS)
    if rsv is None:
        rsv = 0 if r.random() < 0.6 else pick_int(r, U8, 255)
    if kind == 0x51:
        return {'type': 0x51, 'rsv': rsv, 'maxlen': pick_int(r, U32, 2 ** 32 - 1)}
    if kind == 0x52:
        return {'type': 0x52, 'rsv': rsv, 'uid': rand_uid(r)}
    if kind == 0x53:
        return {'type': 0x53, 'rsv': rsv, 'invoked': pick_int(r, U16, 0xFFFF),
                'performed': pick_int(r, U16, 0xFFFF)}
    if kind == 0x54:
        return {'type': 0x54, 'rsv': rsv, 'uid': rand_uid(r), 'scu': pick_int(r, U8, 255),
                'scp': pick_int(r, U8, 255)}
    if kind == 0x55:
        return {'type': 0x55, 'rsv': rsv, 'name': rand_text(r)}
    if kind == 0x56:
        return {'type': 0x56, 'rsv': rsv, 'uid': rand_uid(r), 'appinfo': rand_bytes(r)}
    if kind == 0x58:
        return {'type': 0x58, 'rsv': rsv, 'idtype': pick_int(r, U8, 255),
                'posrsp': pick_int(r, U8, 255), 'primary': rand_utf8(r),
                'secondary': rand_utf8(r)}
    if kind == 0x59:
        return {'type': 0x59, 'rsv': rsv, 'response': rand_text(r)}
    return {'type': r.choice(GENERIC_TYPES), 'rsv': rsv, 'data': rand_bytes(r)}


def gen_user_info(r, kinds=None, rsv=None):
    if kinds is None:
        kinds = [r.choice(SUB_KINDS) for _ in range(r.choice([0, 1, 2, 3, 4, 6, 9]))]
    return {'type': 0x50, 'rsv': 0 if rsv is None else rsv,
            'subs': [gen_sub(r, k) for k in kinds]}


def gen_syntax(r, t, name=None):
    return {'type': t, 'rsv': 0 if r.random() < 0.7 else pick_int(r, U8, 255),
            'name': rand_uid(r) if name is None else name}


def gen_pc_rq(r, nts=None):
    if nts is None:
        nts = r.choice([0, 1, 1, 2, 3, 5])
    z = lambda: 0 if r.random() < 0.7 else pick_int(r, U8, 255)
    return {'type': 0x20, 'rsv1': z(), 'id': pick_int(r, U8, 255), 'rsv2': z(), 'rsv3': z(),
            'rsv4': z(), 'abstract': gen_syntax(r, 0x30),
            'ts': [gen_syntax(r, 0x40) for _ in range(nts)]}


def gen_pc_ac(r):
    z = lambda: 0 if r.random() < 0.7 else pick_int(r, U8, 255)
    return {'type': 0x21, 'rsv1': z(), 'id': pick_int(r, U8, 255), 'rsv2': z(),
            'result': pick_int(r, [0, 1, 2, 3, 4, 255], 255), 'rsv3': z(),
            'ts': gen_syntax(r, 0x40)}


def gen_app_ctx(r):
    return {'type': 0x10, 'rsv': 0 if r.random() < 0.7 else pick_int(r, U8, 255),
            'name': APP_CONTEXT if r.random() < 0.5 else rand_uid(r)}


def gen_assoc(r, t=None, canonical=None):
    """A-ASSOCIATE-RQ/AC tree.  canonical: application context, presentation
    contexts, user information last (the order the library itself emits); else
    the variable items are shuffled / repeated / absent."""
    if t is None:
        t = r.choice([1, 2])
    if canonical is None:
        canonical = r.random() < 0.5
    npc = r.choice([0, 1, 2, 3, 5])
    pcs = [gen_pc_rq(r) if (t == 1 or (not canonical and r.random() < 0.2)) else gen_pc_ac(r)
           for _ in range(npc)]
    if canonical:
        items = [gen_app_ctx(r)] + pcs + [gen_user_info(r)]
    else:
        items = pcs
        if r.random() < 0.8:
            items.append(gen_app_ctx(r))
        for _ in range(r.choice([0, 1, 1, 1, 2])):
            items.append(gen_user_info(r))
        r.shuffle(items)
    zero3 = r.random() < 0.7
    return {'type': t, 'rsv1': 0 if r.random() < 0.7 else pick_int(r, U8, 255),
            'version': 1 if r.random() < 0.6 else pick_int(r, U16, 0xFFFF),
            'rsv2': 0 if r.random() < 0.7 else pick_int(r, U16, 0xFFFF),
            'called': rand_title(r), 'calling': rand_title(r),
            'rsv3': b'\0' * 32 if zero3 else struct.pack(
                '>8I', *[pick_int(r, U32, 2 ** 32 - 1) for _ in range(8)]),
            'items': items}


def gen_rj(r):
    return {'type': 3, 'rsv1': pick_int(r, U8, 255), 'rsv2': pick_int(r, U8, 255),
            'result': pick_int(r, U8, 255), 'source': pick_int(r, U8, 255),
            'reason': pick_int(r, U8, 255)}


def gen_release(r, t=None):
    return {'type': t or r.choice([5, 6]), 'rsv1': pick_int(r, U8, 255),
            'rsv2': pick_int(r, U32, 2 ** 32 - 1)}


def gen_abort(r):
    return {'type': 7, 'rsv1': pick_int(r, U8, 255), 'rsv2': pick_int(r, U8, 255),
            'rsv3': pick_int(r, U8, 255), 'source': pick_int(r, U8, 255),
            'reason': pick_int(r, U8, 255)}


def gen_pdata(r, big=False):
    n = r.choice([0, 1, 1, 2, 3, 5])
    pdvs = []
    for _ in range(n):
        if big and r.random() < 0.5:
            size = r.choice([65535, 65536, 65537, 70000])
        else:
            size = r.choice([0, 1, 2, 3]) if r.random() < 0.4 else r.randrange(0, 200)
        data = r.getrandbits(8 * size).to_bytes(size, 'big') if size else b''
        pdvs.append({'ctx': pick_int(r, U8, 255), 'data': data})
    return {'type': 4, 'rsv': pick_int(r, U8, 255), 'pdvs': pdvs}


def gen_any(r):
    k = r.random()
    if k < 0.45:
        return gen_assoc(r)
    if k < 0.6:
        return gen_pdata(r, big=r.random() < 0.05)
    if k < 0.7:
        return gen_rj(r)
    if k < 0.85:
        return gen_release(r)
    return gen_abort(r)


# ---------------------------------------------------------------- enumerators
def adjacency_trees(r):
    """Every ordered pair of user-information sub-item kinds adjacent, and each
    kind last (81 + 9 structures), in RQ and AC PDUs."""
    for t in (1, 2):
        for a, b in itertools.product(SUB_KINDS, SUB_KINDS):
            yield ('adj', t, str(a), str(b)), _assoc_with_subs(r, t, [a, b])
            yield ('adj3', t, str(a), str(b)), _assoc_with_subs(r, t, [0x51, a, b, 0x52])
        for a in SUB_KINDS:
            yield ('last', t, str(a)), _assoc_with_subs(r, t, [a])


def _assoc_with_subs(r, t, kinds):
    tree = gen_assoc(r, t, canonical=True)
    tree['items'][-1] = gen_user_info(r, kinds)
    return tree


ITEM_KINDS = ['app', 'pc', 'user']


def item_order_trees(r):
    """Every ordered adjacency of variable item kinds and every permutation of
    {application context, presentation context x2, user information}."""
    def make(t, kinds):
        items = []
        for k in kinds:
            if k == 'app':
                items.append(gen_app_ctx(r))
            elif k == 'pc':
                items.append(gen_pc_rq(r) if t == 1 else gen_pc_ac(r))
            else:
                items.append(gen_user_info(r))
        tree = gen_assoc(r, t, canonical=True)
        tree['items'] = items
        return tree
    for t in (1, 2):
        for a, b in itertools.product(ITEM_KINDS, ITEM_KINDS):
            yield ('item-adj', t, a, b), make(t, [a, b])
        for perm in itertools.permutations(['app', 'pc', 'pc', 'user']):
            yield ('item-perm', t) + perm, make(t, list(perm))
        for n in range(0, 4):
            yield ('item-n', t, n), make(t, ['pc'] * n)


def boundary_trees(r):
    """AE titles of every length 0..16, UIDs of length 0,1,63,64, integer
    fields at their boundaries, PDV payload sizes around 64 KiB."""
    for n in range(17):
        tree = gen_assoc(r, r.choice([1, 2]), canonical=True)
        tree['called'] = rand_title(r, n)
        tree['calling'] = rand_title(r, 16 - n)
        yield ('title', n), tree
    for n in (0, 1, 2, 63, 64):
        tree = gen_assoc(r, 1, canonical=True)
        tree['items'] = [{'type': 0x10, 'rsv': 0, 'name': rand_uid(r, n)},
                         {'type': 0x20, 'rsv1': 0, 'id': 1, 'rsv2': 0, 'rsv3': 0, 'rsv4': 0,
                          'abstract': {'type': 0x30, 'rsv': 0, 'name': rand_uid(r, n)},
                          'ts': [{'type': 0x40, 'rsv': 0, 'name': rand_uid(r, n)}]},
                         {'type': 0x50, 'rsv': 0, 'subs': [
                             {'type': 0x51, 'rsv': 0, 'maxlen': 16384},
                             {'type': 0x52, 'rsv': 0, 'uid': rand_uid(r, n)},
                             {'type': 0x54, 'rsv': 0, 'uid': rand_uid(r, n), 'scu': 1, 'scp': 0},
                             {'type': 0x56, 'rsv': 0, 'uid': rand_uid(r, n), 'appinfo': b'\1\2'},
                             {'type': 0x52, 'rsv': 0, 'uid': rand_uid(r, n)}]}]
        yield ('uidlen', n), tree
    # association PDUs much longer than 64 KiB (no single item can be; many large ones together)
    for nctx, nts in ((128, 7), (128, 15)):
        items = [{'type': 0x10, 'rsv': 0, 'name': rand_uid(r, 64)}]
        for k in range(nctx):
            items.append({'type': 0x20, 'rsv1': 0, 'id': 2 * k + 1, 'rsv2': 0, 'rsv3': 0, 'rsv4': 0,
                          'abstract': {'type': 0x30, 'rsv': 0, 'name': rand_uid(r, 64)},
                          'ts': [{'type': 0x40, 'rsv': 0, 'name': rand_uid(r, 64)} for _ in range(nts)]})
        items.append({'type': 0x50, 'rsv': 0, 'subs': [{'type': 0x51, 'rsv': 0, 'maxlen': 16384},
                                                       {'type': 0x52, 'rsv': 0, 'uid': rand_uid(r, 64)}]})
        yield ('big-rq', nts), {'type': 1, 'rsv1': 0, 'version': 1, 'rsv2': 0, 'called': b'BIG-SCP',
                                'calling': b'BIG-SCU', 'rsv3': b'\0' * 32, 'items': items}
    subs = [{'type': 0x51, 'rsv': 0, 'maxlen': 16384}, {'type': 0x52, 'rsv': 0, 'uid': rand_uid(r, 64)}]
    subs += [{'type': 0x54, 'rsv': 0, 'uid': rand_uid(r, 64), 'scu': 1, 'scp': 1} for _ in range(2100)]
    yield ('big-ac', 0), {'type': 2, 'rsv1': 0, 'version': 1, 'rsv2': 0, 'called': b'BIG-SCP',
                          'calling': b'BIG-SCU', 'rsv3': b'\0' * 32,
                          'items': [{'type': 0x10, 'rsv': 0, 'name': rand_uid(r, 64)},
                                    {'type': 0x21, 'rsv1': 0, 'id': 1, 'rsv2': 0, 'result': 0, 'rsv3': 0,
                                     'ts': {'type': 0x40, 'rsv': 0, 'name': IMPLICIT}},
                                    {'type': 0x50, 'rsv': 0, 'subs': subs[:900]},
                                    {'type': 0x50, 'rsv': 0, 'subs': subs[900:1800]},
                                    {'type': 0x50, 'rsv': 0, 'subs': subs[1800:]}]}
    for v in U8:
        yield ('rj', v), {'type': 3, 'rsv1': v, 'rsv2': v, 'result': v, 'source': 255 - v,
                          'reason': v ^ 0x55}
        yield ('abort', v), {'type': 7, 'rsv1': v, 'rsv2': 255 - v, 'rsv3': v ^ 0xAA,
                             'source': v, 'reason': 255 - v}
        yield ('pc-id', v), {'type': 1, 'rsv1': v, 'version': 1, 'rsv2': 0,
                             'called': b'A', 'calling': b'B', 'rsv3': b'\0' * 32,
                             'items': [{'type': 0x20, 'rsv1': v, 'id': v, 'rsv2': 255 - v,
                                        'rsv3': v, 'rsv4': v ^ 1,
                                        'abstract': {'type': 0x30, 'rsv': v, 'name': VERIFICATION},
                                        'ts': [{'type': 0x40, 'rsv': v, 'name': IMPLICIT}]}]}
        yield ('pc-ac', v), {'type': 2, 'rsv1': v, 'version': 1, 'rsv2': 0,
                             'called': b'A', 'calling': b'B', 'rsv3': b'\0' * 32,
                             'items': [{'type': 0x21, 'rsv1': v, 'id': v, 'rsv2': 255 - v,
                                        'result': v, 'rsv3': v ^ 1,
                                        'ts': {'type': 0x40, 'rsv': v, 'name': IMPLICIT}}]}
    for v in U32:
        yield ('rel', v), {'type': 5, 'rsv1': v & 0xFF, 'rsv2': v}
        yield ('relrp', v), {'type': 6, 'rsv1': v & 0xFF, 'rsv2': v}
        yield ('maxlen', v), {'type': 1, 'rsv1': 0, 'version': 1, 'rsv2': 0, 'called': b'A',
                              'calling': b'B', 'rsv3': struct.pack('>8I', *([v] * 8)),
                              'items': [{'type': 0x50, 'rsv': 0, 'subs': [
                                  {'type': 0x51, 'rsv': 0, 'maxlen': v}]}]}
    for v in U16:
        yield ('u16', v), {'type': 2, 'rsv1': 0, 'version': v, 'rsv2': 0xFFFF - v,
                           'called': b'A', 'calling': b'B', 'rsv3': b'\0' * 32,
                           'items': [{'type': 0x50, 'rsv': 0, 'subs': [
                               {'type': 0x53, 'rsv': 0, 'invoked': v, 'performed': 0xFFFF - v}]}]}
    for size in (0, 1, 2, 65534, 65535, 65536, 65537, 70000):
        for npdv in (1, 2, 5):
            pdvs = []
            for i in range(npdv):
                s = size if i == 0 else (i * 7) % 50
                pdvs.append({'ctx': (2 * i + 1) % 256,
                             'data': r.getrandbits(8 * s).to_bytes(s, 'big') if s else b''})
            yield ('pdv', size, npdv), {'type': 4, 'rsv': 0, 'pdvs': pdvs}
    yield ('pdata-empty',), {'type': 4, 'rsv': 0, 'pdvs': []}


def sub_permutation_trees(r, maxlen=4):
    """All permutations of up to `maxlen` distinct sub-item kinds (reference
    encodings in orders the library never emits itself)."""
    kinds = SUB_KINDS
    for n in range(1, maxlen + 1):
        for combo in itertools.combinations(kinds, n):
            for perm in itertools.permutations(combo):
                yield ('sub-perm',) + tuple(str(k) for k in perm), perm


def jsonable(tree):
    """Tree with bytes turned into hex strings (for evidence samples / replay)."""
    if isinstance(tree, dict):
        return dict((k, jsonable(v)) for k, v in tree.items())
    if isinstance(tree, (list, tuple)):
        return [jsonable(v) for v in tree]
    if isinstance(tree, (bytes, bytearray)):
        if len(tree) > 64:
            return {'hex-prefix': tree[:24].hex(), 'len': len(tree)}
        return {'hex': bytes(tree).hex()}
    return tree


def unjsonable(obj):
    if isinstance(obj, dict):
        if set(obj) == {'hex'}:
            return bytes.fromhex(obj['hex'])
        out = {}
        for k, v in obj.items():
            out[k] = unjsonable(v)
        return out
    if isinstance(obj, list):
        return [unjsonable(v) for v in obj]
    return obj
