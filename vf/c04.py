"""C04 - the state machine performs the PS3.8 Table 9-10 action and transition
in every one of the 13 x 19 cells, for both roles.

Each cell is exercised on the real ``StateMachine.action``: the provider is
first brought to the state by a real history run on the simulated transport
(so that sockets, timer, role and reassembly state are whatever the library
itself sets up); states a role cannot reach are forced through the public
``current_state`` attribute.  Then the event is injected - directly
(``action(event)`` with the triggering primitive) and, where a stimulus exists,
also through the provider loop - and the observable effects are compared with
the standard: wire PDU, indication, connection, ARTIM, next state.  Undefined
cells must have no effect at all.
"""
from __future__ import annotations

from . import c05, fixtures as F, refmodel, simnet
from .common import Result

LEVEL = 'exploration'
ENGINE = 'simnet+refmodel'
TECHNIQUE = ('exhaustive per-cell execution of the real StateMachine.action (13 states x 19 events x 2 roles x '
             'primitive variants) with effects compared to Table 9-10 transcribed from the standard')
LEVEL_TEXT = ('the cell space is finite and swept completely on every run (exhaustive: true); each cell is an '
              'observed execution of the real action code, compared with the standard')
LEVEL_NOTE = ('trusts the transcription of Table 9-10 (DESIGN.md appendix A); AE-1 connects through the simulated '
              'socket module; states a role cannot reach are forced via current_state')
RULE = ('every (state, event, role) cell, with each applicable current primitive (triggering PDU / user primitive; '
        'for Evt17/18/19 three stale primitives), injected directly and, where possible, through the loop; '
        'distinct = (role, state, event, variant, mode); non-trivial = every cell (defined cells have effects to '
        'check, undefined ones must have none)')
ASSUMPTIONS = ['Table 9-10 as transcribed in DESIGN.md appendix A',
               'AE-6 may accept (library) - the reject branch is also allowed by the standard']
REQUIRED = ['oracle.cell-direct', 'oracle.cell-loop', 'oracle.undefined-cell']

REACH = {
    'acceptor': {1: ['pCLOSE'], 2: [], 3: ['pRQ'], 6: ['pRQ', 'uAC'], 7: ['pRQ', 'uAC', 'uRELRQ'],
                 8: ['pRQ', 'uAC', 'pRELRQ'], 10: ['pRQ', 'uAC', 'uRELRQ', 'pRELRQ'],
                 12: ['pRQ', 'uAC', 'uRELRQ', 'pRELRQ', 'pRELRP'], 13: ['pRQ', 'uRJ']},
    'requestor': {5: [], 6: ['pAC'], 7: ['pAC', 'uRELRQ'], 8: ['pAC', 'pRELRQ'],
                  9: ['pAC', 'uRELRQ', 'pRELRQ'], 11: ['pAC', 'uRELRQ', 'pRELRQ', 'uRELRP'],
                  13: ['pAC', 'uABORT'], 1: ['pRJ']},
}
# further real histories into the same states: what the provider holds (current primitive, DIMSE
# decoder with a half-received message, timer) differs, the cell's prescribed effects do not
REACH_ALT = {
    'acceptor': {
        3: [['pRQv3']],
        6: [['pRQ', 'uAC', 'pDATA', 'uDATA'], ['pRQ', 'uAC', 'pPART'], ['pRQvFFFF', 'uAC']],
        7: [['pRQ', 'uAC', 'pPART', 'uRELRQ'], ['pRQ', 'uAC', 'pDATA', 'uDATA', 'uRELRQ']],
        8: [['pRQ', 'uAC', 'pDATA', 'pRELRQ'], ['pRQ', 'uAC', 'pPART', 'pRELRQ']],
        10: [['pRQ', 'uAC', 'pPART', 'uRELRQ', 'pRELRQ']],
        13: [['pUNK'], ['pDATA'], ['pRQ', 'uAC', 'pUNK'], ['pRQ', 'uAC', 'uABORT'],
             ['pRQ', 'uAC', 'pRELRQ', 'uRELRP'], ['pRQ', 'pRQ']],
    },
    'requestor': {
        6: [['pAC', 'uDATA', 'pDATA'], ['pAC', 'pPART'], ['pACv8001']],
        7: [['pAC', 'pPART', 'uRELRQ'], ['pAC', 'uDATA', 'uRELRQ']],
        8: [['pAC', 'pPART', 'pRELRQ']],
        9: [['pAC', 'pPART', 'uRELRQ', 'pRELRQ']],
        13: [['pUNK'], ['pAC', 'pUNK'], ['pAC', 'pRELRQ', 'uRELRP'], ['pAC', 'pAC']],
    },
}
FRESH_IDLE = 'fresh'   # requestor before its A-ASSOCIATE request: Sta1 without any socket

EVENT_PRIMS = {
    1: ['uRQ'], 2: ['uRQ'], 3: ['pAC', 'pACv8001'], 4: ['pRJ', 'pRJt'], 5: [None],
    6: ['pRQ', 'pRQv3', 'pRQvFFFF'], 7: ['uAC'], 8: ['uRJ'],
    9: ['uDATA'], 10: ['pDATA', 'pPART'], 11: ['uRELRQ'], 12: ['pRELRQ'], 13: ['pRELRP'],
    14: ['uRELRP'], 15: ['uABORT'], 16: ['pABORT', 'pABORTu'], 17: [None, 'pDATA', 'pRQ'],
    18: [None, 'pDATA', 'pRQ'], 19: [None, 'pDATA', 'pRQ'],
}
LOOP_STIMULUS = {3: 'pAC', 4: 'pRJ', 6: 'pRQ', 10: 'pDATA', 12: 'pRELRQ', 13: 'pRELRP', 16: 'pABORT',
                 17: 'pCLOSE', 18: 'tEXP', 19: 'pUNK', 7: 'uAC', 8: 'uRJ', 9: 'uDATA', 11: 'uRELRQ',
                 14: 'uRELRP', 15: 'uABORT'}


def exhaustive(tier):
    return True


def plan(tier, seed):
    return [{'name': 'cells', 'role': role, 'states': states}
            for role in ('acceptor', 'requestor')
            for states in ([1, 2, 3, 4], [5, 6, 7], [8, 9, 10], [11, 12, 13])]


def run_shard(spec, tier, seed):
    res = Result()
    for state in spec['states']:
        for evt in range(1, 20):
            for variant in EVENT_PRIMS[evt]:
                run_cell(res, {'role': spec['role'], 'state': state, 'event': evt,
                               'variant': variant, 'mode': 'direct'})
            if evt in LOOP_STIMULUS and state in REACH[spec['role']] and state != 1 \
                    and (evt, state) in refmodel.TABLE:
                run_cell(res, {'role': spec['role'], 'state': state, 'event': evt,
                               'variant': LOOP_STIMULUS[evt], 'mode': 'loop'})
        for k, route in enumerate(REACH_ALT[spec['role']].get(state, [])):
            half = 'pPART' in route
            for evt in range(1, 20):
                # with a half-received message waiting, the next P-DATA-TF is its remainder
                for variant in (['pREST'] if (evt == 10 and half) else EVENT_PRIMS[evt]):
                    run_cell(res, {'role': spec['role'], 'state': state, 'event': evt,
                                   'variant': variant, 'mode': 'direct', 'route': k})
        if state == 1:
            for evt in range(1, 20):
                for variant in EVENT_PRIMS[evt]:
                    run_cell(res, {'role': spec['role'], 'state': 1, 'event': evt,
                                   'variant': variant, 'mode': 'direct', 'fresh': True})
    return res


def replay(case):
    res = Result()
    run_cell(res, case)
    return res


def library_primitive(sym):
    """The object the provider would hold as current primitive."""
    if sym is None:
        return None, None
    if sym.startswith('u'):
        obj, raws = F.user_primitive(sym)
        return obj, raws
    from . import libmap
    raw = F.PEER[sym]
    return libmap.PDU_CLASSES[raw[0]].decode(raw), None


def reach(role, state, fresh=False, route=None):
    """-> (sim at a quiescent point in `state`, forced?)"""
    forced = False
    if route is not None:
        hist = REACH_ALT[role][state][route]
        script, _ = c05.build_script(role, hist)
        sim = simnet.Sim(role, script)
        sim.run()
        if sim.outcome != 'end-of-script' or sim.state() + 1 != state:
            raise RuntimeError('route %r ended with %s %s in Sta%d' % (hist, sim.outcome, sim.error,
                                                                       sim.state() + 1))
        return sim, False
    if fresh:
        sim = simnet.Sim('requestor', [])
        sim.run()
        return sim, False
    table = REACH[role]
    if state in table:
        hist = table[state]
    else:
        # unreachable for this role (or Sta4, which the loop leaves at once): start from the
        # established state of this role and force the state through the public attribute
        hist = table[6]
        forced = True
    script, _ = c05.build_script(role, hist)
    sim = simnet.Sim(role, script)
    sim.run()
    if sim.outcome != 'end-of-script':
        raise RuntimeError('prefix %r ended with %s %s' % (hist, sim.outcome, sim.error))
    if forced:
        sm = sim.provider.state_machine
        with simnet.patched(sim):
            sm.current_state = state - 1
            if state in (2, 13):
                sim.provider.timer.start()
            else:
                sim.provider.timer.stop()
    elif sim.state() + 1 != state:
        # the implementation did not arrive where the standard says: C05's business; here the
        # state is forced so that the cell itself can still be judged
        with simnet.patched(sim):
            sim.provider.state_machine.current_state = state - 1
        forced = True
    return sim, forced


def run_cell(res, case):
    role, state, evt = case['role'], case['state'], case['event']
    variant, mode = case['variant'], case['mode']
    res.evaluations += 1
    res.distinct.add('%s/Sta%d/Evt%d/%s/%s%s%s' % (role, state, evt, variant, mode,
                                                    '/fresh' if case.get('fresh') else '',
                                                    '/route%d' % case['route'] if 'route' in case else ''))
    if 'route' in case:
        res.count('oracle.cell-after-other-history')
    try:
        sim, forced = reach(role, state, case.get('fresh', False), case.get('route'))
    except RuntimeError as exc:
        res.violation('state-unreachable:Sta%d' % state, 'C04.reach', str(exc), case)
        return
    if mode == 'loop':
        return run_cell_loop(res, case, sim)
    prov = sim.provider
    sm = prov.state_machine
    action = refmodel.TABLE.get((evt, state))
    prim, raws = library_primitive(variant)
    # preconditions that belong to the event itself
    before_sockets = list(sim.sockets)
    if evt == 17:
        # "transport connection closed" - the connection is gone when the event is raised
        for s in sim.sockets:
            s.close()
        prov.dul_socket = None
    base = {'wire': len(sim.wire), 'ind': len(sim.indications),
            'closed': [s.closed for s in sim.sockets], 'timer': sim.timer_running,
            'timer_ops': len(sim.timer_ops), 'sockets': len(sim.sockets)}
    prov.primitive = prim
    error = None
    with simnet.patched(sim):
        try:
            sm.action(evt - 1)
        except Exception as exc:
            error = exc
    got = {'wire': sim.wire[base['wire']:], 'raw': sim.wire_pdus[base['wire']:],
           'ind': sim.indications[base['ind']:],
           'closed_now': [s.closed for s in sim.sockets[:base['sockets']]],
           'new_sockets': sim.sockets[base['sockets']:],
           'timer_ops': sim.timer_ops[base['timer_ops']:], 'timer': sim.timer_running,
           'state': sm.current_state + 1}
    where = '%s Sta%d Evt%d prim=%s%s' % (role, state, evt, variant, ' (state forced)' if forced else '')
    if 'route' in case:
        where += ' reached by %s' % '.'.join(REACH_ALT[role][state][case['route']])
    if len(res.samples) < 6 and action:
        res.sample({'cell': where, 'action': action, 'wire': [w[0] for w in got['wire']],
                    'indications': [i[0] for i in got['ind']], 'timer_ops': got['timer_ops'],
                    'next': 'Sta%d' % got['state']})
    if action is None:
        res.count('oracle.undefined-cell')
        effects = []
        if got['wire']:
            effects.append('wire %r' % (got['wire'],))
        if got['ind']:
            effects.append('indication %r' % (got['ind'],))
        if got['closed_now'] != base['closed']:
            effects.append('connection closed')
        if got['new_sockets']:
            effects.append('connection opened')
        if got['state'] != state:
            effects.append('state -> Sta%d' % got['state'])
        if got['timer'] != base['timer']:
            effects.append('ARTIM %r' % (got['timer_ops'],))
        if effects:
            res.violation('undefined-cell-has-effect:Sta%d/Evt%d' % (state, evt), 'C04.undefined',
                          '%s: the standard defines nothing here, observed %s (error=%r)' % (
                              where, '; '.join(effects), error), case)
        return
    res.count('oracle.cell-direct')
    key = 'Sta%d/Evt%d' % (state, evt)
    if error is not None:
        res.violation('action-raises:' + key, 'C04.action', '%s (%s): %s: %s' % (
            where, action, type(error).__name__, error), case)
        return
    wire, ind, conn, timer, nxt = refmodel.ACTIONS[action]
    # ---- wire
    want_wire = []
    if wire is not None:
        if wire.startswith('user:'):
            want_wire = [('raw', r, wire[5:]) for r in (raws or [])]
        elif wire == 'A-ABORT:provider':
            want_wire = [('A-ABORT', 'provider')]
        elif wire == 'A-ABORT':
            want_wire = [('raw', r, 'A-ABORT') for r in raws] if evt == 15 else [('A-ABORT', 'any')]
        else:
            want_wire = [(wire,)]
    if len(got['wire']) != len(want_wire) or not all(
            c05.wire_matches(m, d, r) for m, d, r in zip(want_wire, got['wire'], got['raw'])):
        res.violation('wire:' + key, 'C04.wire', '%s (%s): wrote %r, standard: %r' % (
            where, action, got['wire'], [w[:1] + w[2:] if w[0] == 'raw' else w for w in want_wire]),
            case)
    # ---- indication
    want_ind = []
    if ind == 'P-DATA':
        want_ind = [('DIMSE',)] if variant in ('pDATA', 'pREST') else []
    elif ind == 'A-ABORT:received':
        want_ind = [('A-ABORT',) + F.PEER_INFO[variant if variant in F.PEER_INFO else 'pABORT']['abort']]
    elif ind == 'A-P-ABORT':
        want_ind = [('A-ABORT', 'any')]
    elif ind == 'A-ASSOCIATE-RJ':
        want_ind = [('A-ASSOCIATE-RJ',) + F.PEER_INFO[variant if variant in F.PEER_INFO else 'pRJ']['rj']]
    elif ind is not None:
        want_ind = [(ind,)]
    if len(got['ind']) != len(want_ind) or not all(
            c05.ind_matches(w, g) for w, g in zip(want_ind, got['ind'])):
        res.violation('indication:' + key, 'C04.indication', '%s (%s): indicated %r, standard: %r' % (
            where, action, got['ind'], want_ind), case)
    # ---- connection
    if conn == 'close':
        if not all(got['closed_now']):
            res.violation('not-closed:' + key, 'C04.connection',
                          '%s (%s): transport connection not closed' % (where, action), case)
    elif conn == 'connect':
        if len(got['new_sockets']) != 1 or got['new_sockets'][0].connected_to != getattr(
                prim, 'called_presentation_address', None):
            res.violation('no-connect:' + key, 'C04.connection',
                          '%s (%s): no transport connect request to the called address' % (
                              where, action), case)
    else:
        if got['closed_now'] != base['closed']:
            res.violation('closed-unexpectedly:' + key, 'C04.connection',
                          '%s (%s): transport connection closed, the standard does not say so' % (
                              where, action), case)
    # ---- ARTIM
    if sim.timer_running is not None:
        want_timer = {'start': True, 'restart': True, 'stop': False, None: base['timer']}[timer]
        if got['timer'] != want_timer:
            res.violation('timer:' + key, 'C04.timer', '%s (%s): ARTIM running=%r after %r, standard: %s' % (
                where, action, got['timer'], got['timer_ops'], timer), case)
    # ---- next state
    if nxt == 'collision':
        nxt = 9 if role == 'requestor' else 10
        if forced:
            nxt = None     # role of a forced state is not defined by a real history
    if nxt is not None and got['state'] != nxt:
        res.violation('next-state:' + key, 'C04.state', '%s (%s): next state Sta%d, standard: Sta%d' % (
            where, action, got['state'], nxt), case)


def run_cell_loop(res, case, sim0):
    """The same cell with the event raised by the provider loop itself."""
    role, state, evt, sym = case['role'], case['state'], case['event'], case['variant']
    hist = REACH[role][state] + [sym]
    res.count('oracle.cell-loop')
    sub = Result()
    c05.run_history(sub, {'role': role, 'history': hist})
    for v in sub.violations:
        res.violation(v['key'].split('@')[0] + ':Sta%d/Evt%d' % (state, evt), 'C04.loop/' + v['monitor'],
                      v['message'], case)
