"""E5 - the full stack over real loopback TCP with real threads.

* ``TapSocket`` wraps a real socket: records bytes per direction, is the
  injection point for seeded delays and scripted resets.
* ``instrument()`` installs, for the duration of a block, a select shim in
  ``dulprovider`` (caps the 50 ms poll so that associations take milliseconds,
  adds seeded jitter) and a socket-module shim in ``fsm`` (client sockets become
  TapSockets).  Servers get TapSockets by mixing ``TapServerMixin`` into an
  ``AE`` subclass (it overrides the public ``get_request``).
* ``RefPeer`` is a scripted DICOM peer that speaks only through refcodec.
"""
from __future__ import annotations

import contextlib
import random
import select as real_select
import socket as real_socket
import struct
import threading
import time

from pynetdicom2 import dulprovider, fsm

from . import refcodec as R

_lock = threading.Lock()


class Net(object):
    """Shared recorder / scheduler state for one workload."""

    def __init__(self, seed=0, delay=0.0, poll_cap=0.001, jitter=0.0, sndbuf=None):
        self.rnd = random.Random(seed)
        self.sndbuf = sndbuf        # a host configured with small socket send buffers (bytes)
        self.delay = delay          # max seeded sleep before recv/sendall (seconds)
        self.poll_cap = poll_cap
        self.jitter = jitter        # extra random sleep in select (provider thread slow-down)
        self.taps = []
        self.events = []            # (seq, tap id, direction, nbytes)
        self.seq = 0
        self.opened = 0
        self.closed = 0

    def sleep(self, scale=1.0):
        if self.delay:
            with _lock:
                d = self.rnd.random() * self.delay * scale
            if d > 0:
                time.sleep(d)

    def record(self, tap, direction, n):
        with _lock:
            self.seq += 1
            self.events.append((self.seq, tap.ident, direction, n))

    def signature(self):
        """Interleaving signature: order of boundary events tagged by connection."""
        import hashlib
        h = hashlib.blake2b(digest_size=8)
        for _, ident, direction, n in self.events:
            h.update(('%d%s' % (ident, direction)).encode())
        return h.hexdigest()


class TapSocket(object):
    def __init__(self, sock, net, role):
        self._sock = sock
        self.net = net
        self.role = role
        self.sent = bytearray()
        self.received = bytearray()
        self.closed = False
        self.reset_after_sent = None     # scripted fault: reset once this many bytes were sent
        if getattr(net, 'sndbuf', None):
            try:
                sock.setsockopt(real_socket.SOL_SOCKET, real_socket.SO_SNDBUF, net.sndbuf)
            except OSError:
                pass
        with _lock:
            net.opened += 1
            self.ident = len(net.taps)
            net.taps.append(self)

    def recv(self, n, *flags):
        self.net.sleep()
        data = self._sock.recv(n, *flags)
        if data:
            self.received += data
            self.net.record(self, 'r', len(data))
        return data

    def sendall(self, data, *flags):
        self.net.sleep()
        if self.reset_after_sent is not None and len(self.sent) + len(data) > self.reset_after_sent:
            keep = max(self.reset_after_sent - len(self.sent), 0)
            if keep:
                self._sock.sendall(data[:keep])
                self.sent += data[:keep]
            self.hard_reset()
            raise ConnectionResetError('scripted reset')
        self._sock.sendall(data, *flags)
        self.sent += data
        self.net.record(self, 's', len(data))

    def send(self, data, *flags):
        self.sendall(data)
        return len(data)

    def hard_reset(self):
        try:
            self._sock.setsockopt(real_socket.SOL_SOCKET, real_socket.SO_LINGER,
                                  struct.pack('ii', 1, 0))
        except OSError:
            pass
        self.close()

    def close(self):
        if not self.closed:
            self.closed = True
            with _lock:
                self.net.closed += 1
        return self._sock.close()

    def fileno(self):
        return self._sock.fileno()

    def connect(self, address):
        self.peer_address = address
        return self._sock.connect(address)

    def __getattr__(self, name):
        return getattr(self._sock, name)

    def sent_pdus(self):
        return parse_stream(bytes(self.sent))

    def received_pdus(self):
        return parse_stream(bytes(self.received))


def parse_stream(data):
    out = []
    pdus, rest = R.split_stream(data)
    for raw in pdus:
        try:
            out.append(R.parse_pdu(raw))
        except R.RefError as exc:
            out.append({'type': 'MALFORMED', 'error': str(exc), 'raw': raw[:32]})
    if rest:
        out.append({'type': 'PARTIAL', 'raw': rest[:32]})
    return out


class SelectShim(object):
    error = real_select.error

    def __init__(self, net):
        self.net = net

    def select(self, rlist, wlist, xlist, timeout=None):
        if timeout is not None:
            timeout = min(timeout, self.net.poll_cap)
        if self.net.jitter:
            with _lock:
                d = self.net.rnd.random() * self.net.jitter
            time.sleep(d)
        return real_select.select(rlist, wlist, xlist, timeout)

    __call__ = select


class SocketShim(object):
    """Replaces the ``socket`` module inside fsm: AE-1 gets a TapSocket."""

    def __init__(self, net):
        self.net = net

    def socket(self, *a, **kw):
        return TapSocket(real_socket.socket(*a, **kw), self.net, 'client')

    def __call__(self, *a, **kw):
        return self.socket(*a, **kw)

    def __getattr__(self, name):
        return getattr(real_socket, name)


@contextlib.contextmanager
def instrument(net):
    # the shims only speed the poll up, add delays and tap client sockets: when a name is not
    # there (the library reaches select / socket some other way) the workload still runs
    saved = {}
    for mod, name, shim in ((dulprovider, 'select', SelectShim(net)), (fsm, 'socket', SocketShim(net))):
        if hasattr(mod, name):
            saved[(mod, name)] = getattr(mod, name)
            setattr(mod, name, shim)
    try:
        yield net
    finally:
        for (mod, name), old in saved.items():
            setattr(mod, name, old)


class TapServerMixin(object):
    """Mix into an AE subclass: accepted connections become TapSockets."""
    net = None

    def get_request(self):
        sock, addr = super(TapServerMixin, self).get_request()
        return TapSocket(sock, self.net, 'server'), addr

    def handle_error(self, request, client_address):
        # exceptions escaping a handler thread are recorded, not printed
        import sys
        self.handler_errors = getattr(self, 'handler_errors', [])
        self.handler_errors.append(sys.exc_info()[1])

    @property
    def port(self):
        return self.server_address[1]


@contextlib.contextmanager
def serving(ae):
    """Run a (bound) AE in a daemon thread for the duration of the block."""
    t = threading.Thread(target=ae.serve_forever, kwargs={'poll_interval': 0.01}, daemon=True)
    t.start()
    try:
        yield ae
    finally:
        ae.shutdown()
        ae.server_close()
        t.join(5)


def is_timeout(error):
    """Time-outs (library receive time-out, socket time-out of the reference peer) are not
    verdicts on a loaded machine: callers re-run the case alone before reporting anything."""
    if error is None:
        return False
    try:
        from pynetdicom2 import exceptions
        if isinstance(error, exceptions.DCMTimeoutError):
            return True
    except ImportError:
        pass
    return isinstance(error, (real_socket.timeout, TimeoutError)) or 'timed out' in str(error)


def provider_threads():
    return [t for t in threading.enumerate() if isinstance(t, dulprovider.DULServiceProvider)
            and t.is_alive()]


def wait_quiet(baseline=0, timeout=5.0):
    """Wait (bounded) until no provider threads beyond `baseline` are alive."""
    end = time.time() + timeout
    while time.time() < end:
        if len(provider_threads()) <= baseline:
            return True
        time.sleep(0.01)
    return len(provider_threads()) <= baseline


# --------------------------------------------------------------------------
# reference peer
# --------------------------------------------------------------------------
class PeerClosed(Exception):
    pass


class RefPeer(object):
    """A DICOM peer written against the standard only (refcodec)."""

    def __init__(self, sock, timeout=5.0):
        self.sock = sock
        self.sock.settimeout(timeout)
        self.sent = []
        self.received = []
        self.buf = b''
        self.peer_max = 0      # what the other side announced (bounds what we send)
        self.my_max = 16384

    # ---- raw PDU i/o
    def send_raw(self, data):
        self.sock.sendall(data)

    def send_pdu(self, tree):
        self.sent.append(tree)
        self.sock.sendall(R.build_pdu(tree))

    def recv_pdu(self):
        while True:
            pdus, rest = R.split_stream(self.buf)
            if pdus:
                raw = pdus[0]
                self.buf = self.buf[len(raw):]
                tree = R.parse_pdu(raw)
                self.received.append(tree)
                return tree
            try:
                data = self.sock.recv(65536)
            except ConnectionResetError:
                raise PeerClosed('reset')
            if not data:
                raise PeerClosed('closed')
            self.buf += data

    def expect(self, ptype):
        tree = self.recv_pdu()
        if tree['type'] != ptype:
            raise AssertionError('expected PDU type %d, got %r' % (ptype, tree))
        return tree

    def wait_closed(self, timeout=5.0):
        self.sock.settimeout(timeout)
        try:
            while True:
                data = self.sock.recv(65536)
                if not data:
                    return True
                self.buf += data
        except (ConnectionResetError, OSError):
            return True
        except real_socket.timeout:
            return False

    def close(self):
        try:
            self.sock.close()
        except OSError:
            pass

    # ---- association
    @classmethod
    def connect(cls, port, timeout=5.0):
        s = real_socket.create_connection(('127.0.0.1', port), timeout=timeout)
        return cls(s, timeout)

    def associate(self, contexts, max_len=16384, called=b'ANY-SCP', calling=b'REFPEER',
                  extra_subs=()):
        from . import fixtures as F
        self.my_max = max_len
        self.send_pdu(F.assoc_rq_tree(contexts=contexts, max_len=max_len, called=called,
                                      calling=calling, extra_subs=extra_subs))
        reply = self.recv_pdu()
        if reply['type'] == 2:
            self.note_max(reply)
        return reply

    def note_max(self, tree):
        for item in tree['items']:
            if item['type'] == 0x50:
                for sub in item['subs']:
                    if sub['type'] == 0x51:
                        self.peer_max = sub['maxlen']

    def accept(self, choose=None, max_len=16384):
        """Receive an A-ASSOCIATE-RQ and accept every context (first transfer syntax) unless
        `choose(item)` returns (result, ts)."""
        from . import fixtures as F
        rq = self.expect(1)
        self.note_max(rq)
        self.my_max = max_len
        answers = []
        self.contexts = {}
        for item in rq['items']:
            if item['type'] == 0x20:
                result, ts = (0, item['ts'][0]['name']) if choose is None else choose(item)
                answers.append((item['id'], result, ts))
                if result == 0:
                    self.contexts[item['id']] = (item['abstract']['name'].decode(), ts.decode())
        self.send_pdu(F.assoc_ac_tree(contexts=answers, max_len=max_len,
                                      called=rq['called'].strip(b' \0'),
                                      calling=rq['calling'].strip(b' \0')))
        return rq

    # ---- DIMSE
    def send_dimse(self, ctx, command_fields, data=None, composition=None, data_set_type=0x0001):
        fields = dict(command_fields)
        fields[R.TAG_DATA_SET_TYPE] = data_set_type if data else 0x0101
        cmd = R.build_command_set(fields)
        pdvs = R.fragment(cmd, data, self.peer_max, ctx)
        comp = composition or [1] * len(pdvs)
        for tree in R.group_pdvs(pdvs, comp):
            self.send_pdu(tree)

    def recv_dimse(self):
        """-> (ctx, command dict, data bytes, [P-DATA-TF lengths]) or the non-P-DATA PDU tree"""
        chk = R.StreamChecker()
        lengths = []
        while True:
            tree = self.recv_pdu()
            if tree['type'] != 4:
                return tree
            lengths.append(sum(len(p['data']) + 5 for p in tree['pdvs']))
            for pdv in tree['pdvs']:
                chk.feed(pdv['ctx'], pdv['data'])
            if chk.command_done:
                cmd = R.parse_command_set(chk.command_bytes())
                if cmd.get(R.TAG_DATA_SET_TYPE) == 0x0101 or chk.data_done:
                    return chk.ctx, cmd, chk.data_bytes(), lengths, chk.problems

    def release(self):
        self.send_pdu({'type': 5})
        return self.recv_pdu()

    def abort(self, source=0, reason=0):
        self.send_pdu({'type': 7, 'source': source, 'reason': reason})


def listener():
    s = real_socket.socket(real_socket.AF_INET, real_socket.SOCK_STREAM)
    s.setsockopt(real_socket.SOL_SOCKET, real_socket.SO_REUSEADDR, 1)
    s.bind(('127.0.0.1', 0))
    s.listen(64)
    return s, s.getsockname()[1]


class PeerServer(object):
    """Runs `handler(RefPeer)` for every accepted connection, in threads."""

    def __init__(self, handler, timeout=5.0):
        self.handler = handler
        self.sock, self.port = listener()
        self.sock.settimeout(0.2)
        self.timeout = timeout
        self.errors = []
        self.results = []
        self.threads = []
        self.stop = False
        self.thread = threading.Thread(target=self.loop, daemon=True)
        self.thread.start()

    def loop(self):
        while not self.stop:
            try:
                conn, addr = self.sock.accept()
            except real_socket.timeout:
                continue
            except OSError:
                break
            t = threading.Thread(target=self.serve, args=(conn,), daemon=True)
            t.start()
            self.threads.append(t)

    def serve(self, conn):
        peer = RefPeer(conn, self.timeout)
        try:
            self.results.append(self.handler(peer))
        except Exception as exc:
            import traceback
            self.errors.append('%s: %s\n%s' % (type(exc).__name__, exc, traceback.format_exc()[-600:]))
        finally:
            peer.close()

    def close(self):
        self.stop = True
        try:
            self.sock.close()
        except OSError:
            pass
        for t in self.threads:
            t.join(5)
        self.thread.join(2)
