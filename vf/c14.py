"""C14 - rejection, abort and release are reported faithfully to both sides.

Full stack over loopback TCP (E5), with the library on both sides and, to judge
each side alone, with the reference peer on either side.  The wire is tapped
and parsed by the reference codec; exceptions are captured at the public
boundaries (``request_association``, ``Association.receive``).
"""
from __future__ import annotations

import threading

from . import refcodec as R, tcpnet, svc
from .common import Result, rng, chunked

LEVEL = 'exploration'
ENGINE = 'tcpnet'
TECHNIQUE = ('wire tap parsed by the reference codec + exceptions captured at the public boundaries on both sides, '
             'library vs library and library vs reference peer over loopback TCP with real threads')
LEVEL_TEXT = ('all standard (result, source, reason) triples and abort (source, reason) pairs exhaustively plus seeded '
              'byte values, at three points of the conversation, for normal and exceptional exit of the requesting '
              'context manager; a sample of the byte range and of OS interleavings')
LEVEL_NOTE = 'real-thread tier; a library time-out is re-run alone before it counts'
RULE = ('case = (scenario, field values, point in the conversation); distinct = same tuple; non-trivial = every case '
        '(each ends an association in a specific way)')
ASSUMPTIONS = ['loopback TCP is reliable']
REQUIRED = ['oracle.reject-faithful', 'oracle.abort-faithful', 'oracle.release-faithful',
            'oracle.context-manager', 'oracle.no-service-on-refused', 'oracle.exit-after-timeout-releases',
            'oracle.exit-through-library-error', 'oracle.exit-through-foreign-error', 'oracle.abort-at-odd-moments']

SCENARIOS = ['reject-lib-lib', 'reject-refpeer-acceptor', 'reject-then-hostile-request',
             'abort-by-requestor-lib-lib', 'abort-by-requestor-refpeer-acceptor',
             'abort-by-acceptor-lib-lib', 'abort-by-refpeer-acceptor', 'release-by-refpeer-acceptor',
             'release-lib-lib', 'exit-with-exception', 'abort-instead-of-accept', 'abort-mid-message']
STANDARD_TRIPLES = [(res, src, rsn) for res in (1, 2) for src, rsns in ((1, (1, 2, 3, 7)), (2, (1, 2)),
                                                                        (3, (1, 2))) for rsn in rsns]
STANDARD_ABORTS = [(0, 0), (2, 0), (2, 1), (2, 2), (2, 4), (2, 5), (2, 6)]
POINTS = ['before', 'between', 'during']
N = {'quick': 330, 'thorough': 6000}


OPTIMIZED_SAMPLE = 1     # the first shard once more under python -O (vf/runner.py)


def exhaustive(tier):
    return False


def plan(tier, seed):
    from . import c14exit
    rounds = 1 if tier == 'quick' else 12
    return [{'lo': p[0], 'hi': p[-1] + 1} for p in chunked(range(N[tier]), 16) if p] + \
        [{'kind': 'exit', 'lo': p[0], 'hi': p[-1] + 1}
         for p in chunked(range(c14exit.n_cases() * rounds), 12) if p]


def run_shard(spec, tier, seed):
    res = Result()
    if spec.get('kind') == 'exit':
        from . import c14exit
        for j in range(spec['lo'], spec['hi']):
            c14exit.run_case(res, {'index': j, 'seed': seed + j // c14exit.n_cases()})
        return res
    for i in range(spec['lo'], spec['hi']):
        run_case(res, {'index': i, 'seed': seed})
    return res


def replay(case):
    res = Result()
    if case.get('kind') == 'exit':
        from . import c14exit
        c14exit.run_case(res, {'index': case['index'], 'seed': case['seed']})
        return res
    run_case(res, case)
    return res


class Boom(Exception):
    pass


def run_case(res, case, attempt=0):
    from pynetdicom2 import applicationentity, asceprovider, exceptions, sopclass, statuses
    import pydicom
    i, seed = case['index'], case['seed']
    r = rng(seed, 'c14', i)
    scenario = SCENARIOS[i % len(SCENARIOS)]
    k = i // len(SCENARIOS)
    if scenario.startswith('reject'):
        triple = STANDARD_TRIPLES[k % len(STANDARD_TRIPLES)] if k < 2 * len(STANDARD_TRIPLES) else (
            r.randrange(256), r.randrange(256), r.randrange(256))
    else:
        triple = None
    pair = STANDARD_ABORTS[k % len(STANDARD_ABORTS)] if k < 3 * len(STANDARD_ABORTS) else (
        r.choice([0, 2, r.randrange(256)]), r.randrange(256))
    point = POINTS[k % 3]
    reject_form = rng(seed, 'c14-form', i).randrange(5)
    res.evaluations += 1 if not attempt else 0
    res.distinct.add('%s|%s|%s|%s' % (scenario, triple, pair if 'abort' in scenario else '', point))
    case = dict(case, scenario=scenario, triple=triple, pair=pair, point=point)
    where = '%s triple=%s pair=%s point=%s' % (scenario, triple, pair, point)
    net = tcpnet.Net(seed=seed * 31 + i, jitter=r.choice([0, 0, 0.002]) * (0 if attempt else 1))
    service_calls = []
    server_errors = []       # exceptions seen by the acceptor's receive()
    client_error = None
    wire = {}
    extra = {}

    def recording_echo(asce, ctx, msg):
        service_calls.append((ctx.id, type(msg).__name__))
        sopclass.verification_scp(asce, ctx, msg)
    recording_echo.sop_classes = [svc.VERIFICATION]

    def aborting_store(asce, ctx, msg):
        service_calls.append((ctx.id, type(msg).__name__))
        if msg.data_set:
            try:
                msg.data_set.close()
            except Exception:
                pass
        asce.abort(pair[1])
    aborting_store.sop_classes = [svc.CT]

    def plain_store(asce, ctx, msg):
        service_calls.append((ctx.id, type(msg).__name__))
        sopclass.storage_scp(asce, ctx, msg)
    plain_store.sop_classes = [svc.CT]
    plain_store.store_in_file = True

    class Server(tcpnet.TapServerMixin, applicationentity.AE):
        def on_association_request(self, asce, assoc):
            if triple is not None:
                if extra.get('directory') is not None:
                    # the application first asks a directory node (an association of its own,
                    # requested from this very entity), then refuses
                    with self.request_association(extra['directory']) as lookup:
                        extra['lookup_status'] = int(lookup.get_scu(svc.VERIFICATION)(1))
                form = reject_form
                if form == 0:
                    # a human-readable message after the three fields (the constructor passes it on)
                    res.count('sim.refusal-with-message')
                    raise exceptions.AssociationRejectedError(triple[0], triple[1], triple[2],
                                                              'refused by policy %d' % k)
                if form == 1:
                    # the application adjusts the fields of an error it got from elsewhere
                    res.count('sim.refusal-fields-reassigned')
                    exc = exceptions.AssociationRejectedError(1, 1, 1)
                    exc.result, exc.source, exc.diagnostic = triple
                    raise exc
                if k % 2:
                    # the documented parameter names, given as keywords
                    raise exceptions.AssociationRejectedError(result=triple[0], source=triple[1],
                                                              diagnostic=triple[2])
                raise exceptions.AssociationRejectedError(*triple)

        def on_receive_store(self, context, ds):
            return statuses.SUCCESS

    def big_dataset():
        ds = pydicom.Dataset()
        ds.SOPClassUID = svc.CT
        ds.SOPInstanceUID = '1.2.826.14.%d' % i
        ds.PatientName = 'C14^%d' % i
        ds.ImageComments = 'z' * 3000
        return ds

    orig_receive = asceprovider.AssociationAcceptor.receive

    def receive(self):
        try:
            return orig_receive(self)
        except Exception as exc:
            server_errors.append(exc)
            raise

    def client_steps(assoc, do_abort=None, expect_peer_end=False):
        """Run the conversation up to `point`, then `do_abort` (if given)."""
        if point in ('between', 'during') or expect_peer_end:
            if point != 'before' or expect_peer_end:
                pass
        if point == 'between':
            st = assoc.get_scu(svc.VERIFICATION)(1)
            extra['echo_status'] = int(st)
        if do_abort == 'abort':
            if point == 'during':
                # queue a multi-fragment C-STORE request and abort before its response
                from pynetdicom2 import dimsemessages, dsutils
                msg = dimsemessages.CStoreRQMessage()
                msg.message_id = 5
                msg.priority = 0
                msg.sop_class_uid = svc.CT
                msg.affected_sop_instance_uid = '1.2.826.14.%d' % i
                msg.data_set = dsutils.encode(big_dataset(), True, True)
                ctx = [c for c, v in assoc.accepted_contexts.items() if str(v.sop_class) == svc.CT][0]
                assoc.send(msg, ctx)
            assoc.abort(pair[1])
        elif do_abort == 'store-expecting-end':
            st = assoc.get_scu(svc.CT)(big_dataset(), 5)
            extra['store_status'] = int(st)
        elif do_abort == 'echo-expecting-end':
            st = assoc.get_scu(svc.VERIFICATION)(9)
            extra['echo2_status'] = int(st)
        elif do_abort == 'boom':
            if point == 'during':
                st = assoc.get_scu(svc.CT)(big_dataset(), 5)
            raise Boom('application error inside the with block')

    def make_client():
        client = applicationentity.ClientAE('C14SCU', supported_ts=['1.2.840.10008.1.2'], max_pdu_length=256)
        client.timeout = 5
        if scenario == 'release-lib-lib' and k % 3 == 1:
            # no limit (None, as for any queue or socket wait); the peer here answers
            client.timeout = None
            res.count('sim.requestor-without-time-limit')
        client.add_scu(sopclass.verification_scu)
        client.add_scu(sopclass.storage_scu, [svc.CT])
        return client

    asceprovider.AssociationAcceptor.receive = receive
    try:
        with tcpnet.instrument(net):
            try:
                lib_server = scenario in ('reject-lib-lib', 'reject-then-hostile-request',
                                          'abort-by-requestor-lib-lib', 'abort-by-acceptor-lib-lib',
                                          'release-lib-lib', 'exit-with-exception')
                if lib_server:
                    server = Server('C14SCP', 0, max_pdu_length=1024)
                    server.net = net
                    server.timeout = 5
                    server.add_scp(recording_echo)
                    server.add_scp(aborting_store if scenario == 'abort-by-acceptor-lib-lib' else plain_store)
                    directory = None
                    if scenario == 'reject-lib-lib' and k % 4 == 3:
                        server.add_scu(sopclass.verification_scu)

                        def directory_node(peer):
                            peer.accept(max_len=16384)
                            ctx, cmd, data, lengths, problems = peer.recv_dimse()
                            peer.send_dimse(ctx, {R.TAG_AFFECTED_SOP_CLASS: svc.VERIFICATION,
                                                  R.TAG_COMMAND_FIELD: 0x8030,
                                                  R.TAG_MESSAGE_ID_RSP: cmd.get(R.TAG_MESSAGE_ID), R.TAG_STATUS: 0})
                            nxt = peer.recv_pdu()
                            if nxt['type'] == 5:
                                peer.send_pdu({'type': 6})
                        directory = tcpnet.PeerServer(directory_node)
                        extra['directory_server'] = directory
                        extra['directory'] = {'aet': 'DIRECTORY', 'address': '127.0.0.1', 'port': directory.port}
                        res.count('sim.refusal-after-nested-association')
                    with tcpnet.serving(server):
                        remote = {'aet': 'C14SCP', 'address': '127.0.0.1', 'port': server.port}
                        if scenario == 'reject-then-hostile-request':
                            peer = tcpnet.RefPeer.connect(server.port)
                            try:
                                reply = peer.associate([(1, svc.VERIFICATION.encode(), (b'1.2.840.10008.1.2',))])
                                wire['reply'] = reply
                                # a hostile requestor carries on as if it had been accepted
                                try:
                                    peer.peer_max = 16384
                                    peer.send_dimse(1, {R.TAG_AFFECTED_SOP_CLASS: svc.VERIFICATION,
                                                        R.TAG_COMMAND_FIELD: 0x0030, R.TAG_MESSAGE_ID: 1})
                                    wire['after'] = []
                                    while True:
                                        wire['after'].append(peer.recv_pdu())
                                except (tcpnet.PeerClosed, OSError):
                                    pass
                            finally:
                                peer.close()
                        else:
                            client = make_client()
                            try:
                                with client.request_association(remote) as assoc:
                                    wire['assoc'] = assoc
                                    if scenario == 'abort-by-requestor-lib-lib':
                                        client_steps(assoc, 'abort')
                                    elif scenario == 'abort-by-acceptor-lib-lib':
                                        client_steps(assoc, 'store-expecting-end')
                                    elif scenario == 'exit-with-exception':
                                        client_steps(assoc, 'boom')
                                    else:
                                        client_steps(assoc, None)
                            except Exception as exc:
                                client_error = exc
                        tcpnet.wait_quiet(0, 3.0)
                        wire['server_taps'] = [t for t in net.taps if t.role == 'server']
                        wire['client_taps'] = [t for t in net.taps if t.role == 'client' and
                                               getattr(t, 'peer_address', (None, server.port))[1] == server.port]
                        wire['handler_errors'] = list(getattr(server, 'handler_errors', []))
                else:
                    def handler(peer):
                        if scenario == 'reject-refpeer-acceptor':
                            peer.expect(1)
                            peer.send_pdu({'type': 3, 'result': triple[0], 'source': triple[1],
                                           'reason': triple[2]})
                            peer.wait_closed(3.0)
                            return 'rejected'
                        if scenario == 'abort-instead-of-accept':
                            # an acceptor may answer the request with an A-ABORT (Sta3)
                            peer.expect(1)
                            peer.abort(*pair)
                            peer.wait_closed(3.0)
                            return 'aborted'
                        peer.accept(max_len=1024)
                        seen = []
                        while True:
                            try:
                                item = peer.recv_dimse()
                            except tcpnet.PeerClosed:
                                seen.append('closed')
                                return seen
                            if isinstance(item, dict):
                                seen.append(item)
                                if item['type'] == 5:
                                    peer.send_pdu({'type': 6})
                                return seen
                            ctx, cmd, data, lengths, problems = item
                            seen.append(cmd.get(R.TAG_COMMAND_FIELD))
                            if cmd.get(R.TAG_COMMAND_FIELD) == 0x0030 and cmd.get(R.TAG_MESSAGE_ID) == 1:
                                peer.send_dimse(ctx, {R.TAG_AFFECTED_SOP_CLASS: svc.VERIFICATION,
                                                      R.TAG_COMMAND_FIELD: 0x8030,
                                                      R.TAG_MESSAGE_ID_RSP: 1, R.TAG_STATUS: 0})
                                continue
                            if scenario == 'abort-mid-message':
                                # the abort arrives between two fragments of the response
                                rsp = R.build_command_set({
                                    R.TAG_AFFECTED_SOP_CLASS: svc.VERIFICATION, R.TAG_COMMAND_FIELD: 0x8030,
                                    R.TAG_MESSAGE_ID_RSP: cmd.get(R.TAG_MESSAGE_ID), R.TAG_STATUS: 0,
                                    R.TAG_DATA_SET_TYPE: 0x0101})
                                if k % 4 == 3:
                                    # ... or after the complete command set of a response that announces
                                    # a data set, before any of that data set
                                    rsp = R.build_command_set({
                                        R.TAG_AFFECTED_SOP_CLASS: svc.VERIFICATION, R.TAG_COMMAND_FIELD: 0x8030,
                                        R.TAG_MESSAGE_ID_RSP: cmd.get(R.TAG_MESSAGE_ID), R.TAG_STATUS: 0,
                                        R.TAG_DATA_SET_TYPE: 0x0001})
                                    peer.send_pdu({'type': 4, 'pdvs': [{'ctx': ctx, 'data': b'\x03' + rsp}]})
                                else:
                                    cut = [10, len(rsp) // 2, len(rsp) - 1][k % 3]
                                    peer.send_pdu({'type': 4, 'pdvs': [{'ctx': ctx, 'data': b'\x01' + rsp[:cut]}]})
                                peer.abort(*pair)
                                peer.wait_closed(3.0)
                                return seen
                            if scenario == 'abort-by-refpeer-acceptor':
                                peer.abort(*pair)
                                peer.wait_closed(3.0)
                                return seen
                            if scenario == 'release-by-refpeer-acceptor':
                                peer.send_pdu({'type': 5})
                                try:
                                    seen.append(peer.recv_pdu())
                                except tcpnet.PeerClosed:
                                    seen.append('closed')
                                return seen
                    srv = tcpnet.PeerServer(handler)
                    try:
                        remote = {'aet': 'REFSCP', 'address': '127.0.0.1', 'port': srv.port}
                        client = make_client()
                        try:
                            with client.request_association(remote) as assoc:
                                if scenario == 'abort-by-requestor-refpeer-acceptor':
                                    client_steps(assoc, 'abort')
                                else:
                                    client_steps(assoc, 'echo-expecting-end')
                        except Exception as exc:
                            client_error = exc
                    finally:
                        srv.close()
                    wire['peer_results'] = srv.results
                    wire['peer_errors'] = srv.errors
                    wire['client_taps'] = [t for t in net.taps if t.role == 'client']
            except Exception as exc:
                import traceback
                client_error = client_error or exc
                extra['harness'] = traceback.format_exc()[-800:]
    finally:
        asceprovider.AssociationAcceptor.receive = orig_receive
        if extra.get('directory_server') is not None:
            extra.pop('directory_server').close()
    tcpnet.wait_quiet(0, 3.0)
    peer_timed_out = any('timed out' in e or 'TimeoutError' in e for e in wire.get('peer_errors', []))
    if (isinstance(client_error, exceptions.DCMTimeoutError) or peer_timed_out) and attempt < 2:
        # a time-out on a loaded machine is not a verdict: the case is run again, alone and
        # without injected delays; only a failure that persists is reported
        res.count('flaky-timeouts')
        return run_case(res, {'index': i, 'seed': seed}, attempt + 1)
    judge(res, case, where, scenario, triple, pair, point, client_error, server_errors, service_calls, wire,
          extra)


def kinds(pdus):
    return [p['type'] for p in pdus]


def judge(res, case, where, scenario, triple, pair, point, client_error, server_errors, service_calls, wire,
          extra):
    from pynetdicom2 import exceptions
    csent = [p for t in wire.get('client_taps', []) for p in t.sent_pdus()]
    crecv = [p for t in wire.get('client_taps', []) for p in t.received_pdus()]
    res.sample({'case': case, 'client_error': '%s %r' % (type(client_error).__name__,
                                                         getattr(client_error, '__dict__', None)),
                'client_sent': kinds(csent)[-4:], 'client_received': kinds(crecv)[-4:],
                'service_calls': service_calls[:3]}, limit=6)
    if wire.get('peer_errors'):
        res.violation('reference-peer-confused', 'C14.peer', '%s: %s' % (where, wire['peer_errors'][0][:400]),
                      case)
        return
    if scenario in ('reject-lib-lib', 'reject-refpeer-acceptor'):
        res.count('oracle.reject-faithful')
        if not isinstance(client_error, exceptions.AssociationRejectedError):
            res.violation('rejection-wrong-exception', 'C14.reject', '%s: requestor got %s: %s' % (
                where, type(client_error).__name__, client_error), case)
        elif (client_error.result, client_error.source, client_error.diagnostic) != tuple(triple):
            res.violation('rejection-fields-altered', 'C14.reject', '%s: requestor error carries %r' % (
                where, (client_error.result, client_error.source, client_error.diagnostic)), case)
        rj = [p for p in crecv if p['type'] == 3]
        if scenario == 'reject-lib-lib':
            if len(rj) != 1 or (rj[0]['result'], rj[0]['source'], rj[0]['reason']) != tuple(triple):
                res.violation('rj-pdu-fields-altered', 'C14.reject', '%s: wire carries %r' % (
                    where, [(p['result'], p['source'], p['reason']) for p in rj]), case)
            if any(p['type'] == 2 for p in crecv):
                res.violation('accepted-although-refused', 'C14.reject', '%s: an A-ASSOCIATE-AC was sent' %
                              where, case)
        res.count('oracle.no-service-on-refused')
        if service_calls:
            res.violation('service-invoked-on-refused-association', 'C14.reject', '%s: %r' % (
                where, service_calls), case)
        return
    if scenario == 'reject-then-hostile-request':
        res.count('oracle.no-service-on-refused')
        res.count('oracle.reject-faithful')
        reply = wire.get('reply')
        if not reply or reply['type'] != 3 or (reply['result'], reply['source'], reply['reason']) != tuple(triple):
            res.violation('rj-pdu-fields-altered', 'C14.reject', '%s: hostile requestor received %r' % (
                where, reply), case)
        if service_calls:
            res.violation('service-invoked-on-refused-association', 'C14.reject',
                          '%s: a request sent after the rejection was served: %r' % (where, service_calls), case)
        if any(p['type'] == 4 for p in wire.get('after', [])):
            res.violation('response-on-refused-association', 'C14.reject',
                          '%s: P-DATA sent to a refused requestor' % where, case)
        return
    if scenario.startswith('abort-by-requestor'):
        res.count('oracle.abort-faithful')
        aborts = [p for p in csent if p['type'] == 7]
        if client_error is not None:
            res.violation('abort-raises', 'C14.abort', '%s: abort() made the with-block raise %s: %s' % (
                where, type(client_error).__name__, client_error), case)
        if len(aborts) != 1 or (aborts[0]['source'], aborts[0]['reason']) != (0, pair[1]):
            res.violation('abort-pdu-fields-altered', 'C14.abort', '%s: requestor wrote aborts %r' % (
                where, [(p['source'], p['reason']) for p in aborts]), case)
        if any(p['type'] == 5 for p in csent):
            res.violation('release-after-abort', 'C14.abort', '%s: A-RELEASE-RQ written as well' % where, case)
        if scenario.endswith('lib-lib'):
            ab = [e for e in server_errors if isinstance(e, exceptions.AssociationAbortedError)]
            if len(ab) != 1 or (ab[0].source, ab[0].reason_diag) != (0, pair[1]):
                res.violation('abort-not-surfaced-at-acceptor', 'C14.abort',
                              '%s: acceptor receive() raised %r' % (
                                  where, [(type(e).__name__, getattr(e, '__dict__', None))
                                          for e in server_errors]), case)
            if point == 'during' and not any(c[1] == 'CStoreRQMessage' for c in service_calls):
                pass      # the abort may legitimately overtake the dispatch of the request
        return
    if scenario in ('abort-by-acceptor-lib-lib', 'abort-by-refpeer-acceptor', 'abort-instead-of-accept',
                    'abort-mid-message'):
        res.count('oracle.abort-faithful')
        if scenario in ('abort-instead-of-accept', 'abort-mid-message'):
            res.count('oracle.abort-at-odd-moments')
        want = (2, pair[1]) if scenario == 'abort-by-acceptor-lib-lib' else tuple(pair)
        if not isinstance(client_error, exceptions.AssociationAbortedError):
            res.violation('abort-wrong-exception', 'C14.abort', '%s: requestor got %s: %s (extra %r)' % (
                where, type(client_error).__name__, client_error, extra), case)
        elif (client_error.source, client_error.reason_diag) != want:
            res.violation('abort-fields-altered', 'C14.abort', '%s: requestor error carries %r, sent %r' % (
                where, (client_error.source, client_error.reason_diag), want), case)
        ab = [p for p in crecv if p['type'] == 7]
        if scenario == 'abort-by-acceptor-lib-lib' and (
                len(ab) != 1 or (ab[0]['source'], ab[0]['reason']) != want):
            res.violation('abort-pdu-fields-altered', 'C14.abort', '%s: wire carries %r' % (
                where, [(p['source'], p['reason']) for p in ab]), case)
        return
    if scenario == 'release-by-refpeer-acceptor':
        res.count('oracle.release-faithful')
        if not isinstance(client_error, exceptions.AssociationReleasedError):
            res.violation('release-wrong-exception', 'C14.release', '%s: requestor got %s: %s' % (
                where, type(client_error).__name__, client_error), case)
        return
    if scenario == 'release-lib-lib':
        res.count('oracle.release-faithful')
        res.count('oracle.context-manager')
        if client_error is not None:
            res.violation('normal-exit-raises', 'C14.release', '%s: %s: %s' % (
                where, type(client_error).__name__, client_error), case)
        if [p['type'] for p in csent if p['type'] in (5, 7)] != [5]:
            res.violation('normal-exit-does-not-release', 'C14.context-manager',
                          '%s: requestor wrote %r' % (where, kinds(csent)), case)
        if [p['type'] for p in crecv if p['type'] in (6, 7)] != [6]:
            res.violation('release-not-confirmed', 'C14.release', '%s: requestor received %r' % (
                where, kinds(crecv)), case)
        rel = [e for e in server_errors if isinstance(e, exceptions.AssociationReleasedError)]
        if len(rel) != 1:
            res.violation('release-not-surfaced-at-acceptor', 'C14.release', '%s: acceptor receive() raised %r'
                          % (where, [type(e).__name__ for e in server_errors]), case)
        if point == 'between' and extra.get('echo_status') != 0:
            res.violation('exchange-before-release-failed', 'C14.release', '%s: %r' % (where, extra), case)
        return
    if scenario == 'exit-with-exception':
        res.count('oracle.context-manager')
        if not isinstance(client_error, Boom):
            res.violation('application-error-not-propagated', 'C14.context-manager', '%s: got %s: %s' % (
                where, type(client_error).__name__, client_error), case)
        ends = [p['type'] for p in csent if p['type'] in (5, 7)]
        if ends != [7]:
            res.violation('exceptional-exit-does-not-abort', 'C14.context-manager',
                          '%s: requestor wrote %r' % (where, kinds(csent)), case)
        ab = [e for e in server_errors if isinstance(e, exceptions.AssociationAbortedError)]
        if len(ab) != 1:
            res.violation('abort-not-surfaced-at-acceptor', 'C14.abort', '%s: acceptor receive() raised %r' % (
                where, [type(e).__name__ for e in server_errors]), case)
