"""C05 - the provider run as a whole equals the PS3.8 protocol machine over
every event history.

The real ``DULServiceProvider.run()`` is executed under the simulated transport
(vf.simnet) for every history of stimuli up to a depth bound (exhaustively) and
for long seeded random walks; after every stimulus the observable channels
(wire PDUs, indications, connection closed, ARTIM running, protocol state) are
compared with the executable reference model (vf.refmodel).
"""
from __future__ import annotations

import copy

from . import fixtures as F, refmodel, simnet
from .common import Result, rng

LEVEL = 'exploration'
ENGINE = 'simnet+refmodel'
TECHNIQUE = ('online comparison of the real provider loop, run under a deterministic simulated transport and '
             'virtual clock, with an executable PS3.8 reference model after every stimulus of every history')
LEVEL_TEXT = ('all histories over a 20-symbol alphabet up to the depth bound are executed on the real loop '
              '(exhaustive within the bound) plus long seeded random walks; beyond the bound only sampled, '
              'hence exploration')
LEVEL_NOTE = ('trusts the transcription of Table 9-10 in vf/refmodel.py and the faithfulness of the simulated '
              'blocking-socket/select/clock to the real ones; re-association on an idle provider and connect '
              'failure are excluded')
RULE = ('history = sequence of stimuli from {11 peer PDU shapes, peer close, reset, +1s, +11s (ARTIM expiry), '
        'every user primitive the standard allows in the current state}; both roles; all feasible histories to '
        'the depth bound + random walks; distinct = distinct history, non-trivial = at least one table cell '
        'other than the initial one exercised')
ASSUMPTIONS = ['Table 9-10 / action list as transcribed in DESIGN.md appendix A',
               'AE-6 always accepts (the library never rejects at provider level); A-P-ABORT may be '
               'represented by any abort indication object']
REQUIRED = ['oracle.step-compared', 'monitor.pdata-discipline', 'monitor.idle-closed',
            'monitor.timer-iff-waiting', 'oracle.coalesced-run', 'sim.mid-transfer-injections']

DEPTH = {'quick': 4, 'thorough': 6}
WALKS = {'quick': 4000, 'thorough': 120000}
NSHARDS = 16

PEER_SYMS = ['pRQ', 'pAC', 'pRJ', 'pDATA', 'pPART', 'pREST', 'pRELRQ', 'pRELRP', 'pABORT',
             'pUNK', 'pINV']
USER_SYMS = {'A-ASSOCIATE-AC': ['uAC'], 'A-ASSOCIATE-RJ': ['uRJ'], 'P-DATA-TF': ['uDATA', 'uDATA2'],
             'A-RELEASE-RQ': ['uRELRQ'], 'A-RELEASE-RP': ['uRELRP'], 'A-ABORT': ['uABORT']}


def exhaustive(tier):
    return False


# --------------------------------------------------------------------------
# model side
# --------------------------------------------------------------------------
def start_model(role):
    m = refmodel.Machine(role)
    if role == 'requestor':
        m.user('A-ASSOCIATE-RQ', primitive='uRQ')
    return m


def alphabet(m, full_user=True):
    """Stimuli that are possible/legal after what the model has seen."""
    syms = []
    if m.conn_open:
        for s in PEER_SYMS:
            if s == 'pREST' and not m.partial:
                continue
            if s in ('pPART', 'pDATA') and m.partial:
                continue
            syms.append(s)
        syms += ['pCLOSE', 'pRESET']
    syms += ['tSMALL', 'tEXP']
    for kind in m.legal_user():
        if kind == 'A-ASSOCIATE-RQ':
            continue                     # re-association on an idle provider: excluded
        syms += USER_SYMS[kind]
        if kind == 'P-DATA-TF' and m.conn_open:
            # a two-fragment message with a peer stimulus arriving between its fragments
            syms += ['uDATA2!' + p for p in MID_PEER if not (p == 'pDATA' and m.partial)]
    return syms


MID_PEER = ['pABORT', 'pRELRQ', 'pDATA', 'pUNK', 'pCLOSE']


def apply_model(m, sym):
    if '!' in sym:
        # first fragment, then the peer's stimulus, then the second fragment - which the user
        # queued when it was still legal; if it no longer is, nothing is defined for it
        peer = sym.split('!')[1]
        m.user('P-DATA-TF', primitive=('uDATA2', 0))
        apply_model(m, peer)
        try:
            m.user('P-DATA-TF', primitive=('uDATA2', 1))
        except refmodel.UndefinedCell:
            pass
        return
    if sym in F.PEER_KIND:
        m.peer_pdu(F.PEER_KIND[sym], **F.PEER_INFO.get(sym, {}))
    elif sym in ('pCLOSE', 'pRESET'):
        m.peer_close()
    elif sym == 'tSMALL':
        m.advance(1.0)
    elif sym == 'tMID':
        m.advance(6.0)
    elif sym == 'tEXP':
        m.advance(11.0)
    else:
        m.user(F.USER_KIND[sym], primitive=sym)


def model_snapshot(m):
    return {'wire': list(m.wire), 'ind': list(m.indications), 'closed': m.closed(),
            'timer': m.timer_running, 'state': m.state,
            'cell': m.cells[-1] if m.cells else None}


def dead(m):
    """Nothing interesting can follow: idle and closed."""
    return m.state == 1 and not m.conn_open


# --------------------------------------------------------------------------
# enumeration
# --------------------------------------------------------------------------
def histories(role, depth, prefix_filter=None):
    """All maximal feasible histories of at most `depth` stimuli (DFS)."""
    root = start_model(role)

    def rec(m, hist):
        if len(hist) == depth or dead(m):
            if dead(m) and len(hist) < depth:
                # one probe after the end: ARTIM must not fire, nothing may happen
                yield hist + ['tEXP']
            else:
                yield hist
            return
        for sym in alphabet(m):
            if prefix_filter is not None and len(hist) < len(prefix_filter[0]):
                pass
            m2 = copy.deepcopy(m)
            apply_model(m2, sym)
            for h in rec(m2, hist + [sym]):
                yield h
    return rec(root, [])


def prefixes(role, n):
    out = []
    root = start_model(role)

    def rec(m, hist):
        if len(hist) == n or dead(m):
            out.append(hist)
            return
        for sym in alphabet(m):
            m2 = copy.deepcopy(m)
            apply_model(m2, sym)
            rec(m2, hist + [sym])
    rec(root, [])
    return out


def extend(role, prefix, depth):
    m = start_model(role)
    for sym in prefix:
        apply_model(m, sym)

    def rec(m, hist):
        if len(hist) == depth or dead(m):
            if dead(m) and len(hist) < depth:
                yield hist + ['tEXP']
            else:
                yield hist
            return
        for sym in alphabet(m):
            m2 = copy.deepcopy(m)
            apply_model(m2, sym)
            for h in rec(m2, hist + [sym]):
                yield h
    return rec(m, list(prefix))


# valid prefixes that lead into the states a short exhaustive sweep does not reach
# (release, release collision on both sides, awaiting close); every history of
# DEEP_DEPTH further stimuli is enumerated from each of them
DEEP = {
    'acceptor': [['pRQ', 'uAC', 'uRELRQ'], ['pRQ', 'uAC', 'pRELRQ'], ['pRQ', 'uAC', 'uRELRQ', 'pRELRQ'],
                 ['pRQ', 'uAC', 'uRELRQ', 'pRELRQ', 'pRELRP'], ['pRQ', 'uAC', 'pPART'],
                 ['pRQ', 'uAC', 'pPART', 'uRELRQ'], ['pRQ', 'uAC', 'pRELRQ', 'uRELRP'],
                 ['pRQ', 'uAC', 'uRELRQ', 'pRELRQ', 'pRELRP', 'uRELRP']],
    'requestor': [['pAC', 'uRELRQ'], ['pAC', 'pRELRQ'], ['pAC', 'uRELRQ', 'pRELRQ'],
                  ['pAC', 'uRELRQ', 'pRELRQ', 'uRELRP'], ['pAC', 'pPART'], ['pAC', 'pPART', 'uRELRQ'],
                  ['pAC', 'pRELRQ', 'uRELRP'], ['pAC', 'uDATA2', 'pPART', 'pRELRQ']],
}
DEEP_DEPTH = {'quick': 2, 'thorough': 4}


def plan(tier, seed):
    specs = [{'name': 'timing'}]
    for role in ('acceptor', 'requestor'):
        for prefix in DEEP[role]:
            specs.append({'name': 'enum', 'parts': [(role, prefix)],
                          'depth': len(prefix) + DEEP_DEPTH[tier]})
    work = []
    for role in ('acceptor', 'requestor'):
        for p in prefixes(role, 2):
            work.append((role, p))
    for i in range(NSHARDS):
        specs.append({'name': 'enum', 'parts': work[i::NSHARDS], 'depth': DEPTH[tier]})
    n = WALKS[tier]
    per = n // NSHARDS
    for i in range(NSHARDS):
        specs.append({'name': 'walks', 'lo': i * per, 'hi': (i + 1) * per})
    return specs


def run_shard(spec, tier, seed):
    res = Result()
    if spec['name'] == 'enum':
        for role, prefix in spec['parts']:
            for hist in extend(role, prefix, spec['depth']):
                run_history(res, {'role': role, 'history': hist})
        res.notes['exhaustive_to_depth'] = ['%s%s: %d' % (role[0], '/'.join(prefix), spec['depth'])
                                            for role, prefix in spec['parts']][:40]
    elif spec['name'] == 'timing':
        for case in timing_histories():
            run_history(res, case)
    else:
        for i in range(spec['lo'], spec['hi']):
            run_history(res, random_walk(seed, i))
    return res


def timing_histories():
    """ARTIM is armed once and runs for 10 s whatever happens meanwhile: elapsed-time
    patterns (6 s + 6 s with and without traffic in between, many small steps, the exact
    boundary) in every way of awaiting the first PDU or the peer's close."""
    waiting = [('acceptor', []), ('acceptor', ['pRQ', 'uRJ']), ('acceptor', ['pRQ', 'uAC', 'uABORT']),
               ('acceptor', ['pRQ', 'uAC', 'pRELRQ', 'uRELRP']), ('acceptor', ['pRQ', 'uAC', 'pUNK']),
               ('acceptor', ['pRQ', 'pRQ']), ('requestor', ['pAC', 'uABORT']),
               ('requestor', ['pAC', 'pRELRQ', 'uRELRP']), ('requestor', ['pAC', 'pAC']),
               ('requestor', ['pUNK'])]
    traffic = ['pDATA', 'pRQ', 'pRELRP', 'pUNK', 'pPART', 'pAC']
    for role, prefix in waiting:
        in_sta2 = not prefix and role == 'acceptor'
        tails = [['tMID', 'tMID'], ['tMID', 'tSMALL', 'tSMALL', 'tSMALL', 'tSMALL', 'tSMALL'],
                 ['tSMALL'] * 11, ['tMID', 'tSMALL', 'tSMALL', 'tSMALL', 'tSMALL', 'pCLOSE']]
        if not in_sta2:
            for x in traffic:
                tails.append(['tMID', x, 'tMID'])
                tails.append(['tMID', x, 'tSMALL', x, 'tMID'])
                tails.append(['tSMALL', x, 'tMID', x, 'tSMALL', 'tSMALL', 'tSMALL', 'tSMALL', 'tSMALL'])
        for tail in tails:
            yield {'role': role, 'history': prefix + tail, 'timing': True}
    # and where ARTIM must NOT run: time passing in the other states changes nothing
    for role, prefix in [('acceptor', ['pRQ']), ('acceptor', ['pRQ', 'uAC']), ('requestor', []),
                         ('requestor', ['pAC', 'uRELRQ']), ('acceptor', ['pRQ', 'uAC', 'pRELRQ'])]:
        yield {'role': role, 'history': prefix + ['tMID', 'tMID', 'tEXP', 'tSMALL'], 'timing': True}


def replay(case):
    res = Result()
    run_history(res, case, verbose=True)
    return res


WEIGHTS = {'pDATA': 6, 'pPART': 4, 'pREST': 8, 'uDATA': 6, 'uDATA2': 3, 'tSMALL': 3, 'uAC': 8,
           'pAC': 2, 'pRQ': 2, 'uRELRQ': 1, 'pRELRQ': 1, 'uRELRP': 3, 'pRELRP': 1, 'pABORT': 0.3,
           'uABORT': 0.3, 'pUNK': 0.3, 'pINV': 0.3, 'pCLOSE': 0.3, 'pRESET': 0.2, 'tEXP': 0.5,
           'pRJ': 0.5, 'uRJ': 0.5}


def random_walk(seed, index):
    r = rng(seed, 'c05-walk', index)
    role = r.choice(['acceptor', 'requestor'])
    m = start_model(role)
    length = r.randrange(30, 200)
    hist = []
    # walks biased to reach the established state first
    calm = r.random() < 0.8
    while len(hist) < length:
        if dead(m):
            hist.append('tEXP')
            break
        syms = alphabet(m) + ['tMID']
        if calm:
            if m.state == 2 and 'pRQ' in syms and r.random() < 0.9:
                sym = 'pRQ'
            elif m.state == 5 and 'pAC' in syms and r.random() < 0.9:
                sym = 'pAC'
            else:
                w = [WEIGHTS.get(s, 1) for s in syms]
                # in the established state a stray association PDU ends everything: make it rare
                if m.state in (6, 7, 8):
                    w = [x * (0.05 if s in ('pRQ', 'pAC', 'pRJ') else 1) for x, s in zip(w, syms)]
                sym = r.choices(syms, w)[0]
        else:
            sym = r.choice(syms)
        apply_model(m, sym)
        hist.append(sym)
    return {'role': role, 'history': hist, 'walk': index}


# --------------------------------------------------------------------------
# one history on the real loop
# --------------------------------------------------------------------------
def build_script(role, hist):
    script = []
    expected_bytes = {}
    if role == 'requestor':
        obj, raws = F.user_primitive('uRQ')
        script.append(('user', obj))
        expected_bytes['uRQ'] = raws
    for sym in hist:
        if '!' in sym:
            obj, raws = F.user_primitive('uDATA2')
            script.append(('user', obj))
            expected_bytes['uDATA2'] = raws
            peer = sym.split('!')[1]
            script.append(('mid', ('close',) if peer == 'pCLOSE' else ('bytes', F.PEER[peer])))
        elif sym in F.PEER:
            script.append(('bytes', F.PEER[sym]))
        elif sym == 'pCLOSE':
            script.append(('close',))
        elif sym == 'pRESET':
            script.append(('reset',))
        elif sym == 'tSMALL':
            script.append(('time', 1.0))
        elif sym == 'tMID':
            script.append(('time', 6.0))
        elif sym == 'tEXP':
            script.append(('time', 11.0))
        else:
            obj, raws = F.user_primitive(sym)
            script.append(('user', obj))
            expected_bytes[sym] = raws
    return script, expected_bytes


def expand_wire(model_wire, expected_bytes):
    """Model wire entries -> list of matchers (one per PDU)."""
    out = []
    for entry in model_wire:
        if entry[0] == 'user':
            if isinstance(entry[2], tuple):
                out.append(('raw', expected_bytes[entry[2][0]][entry[2][1]], entry[1]))
                continue
            for raw in expected_bytes[entry[2]]:
                out.append(('raw', raw, entry[1]))
        else:
            out.append(entry)
    return out


def wire_matches(matcher, described, raw):
    if matcher[0] == 'raw':
        return raw == matcher[1]
    if matcher[0] == 'A-ABORT':
        if described[0] != 'A-ABORT':
            return False
        if matcher[1] == 'provider':
            return described[1] == 2
        return True
    return described[0] == matcher[0]


def ind_matches(want, got):
    if want[0] == 'DIMSE':
        return got[0] == 'DIMSE'
    if want[0] == 'A-ABORT':
        if got[0] != 'A-ABORT':
            return False
        if len(want) > 1 and want[1] == 'any':
            return True
        return tuple(got[1:]) == tuple(want[1:])
    if want[0] == 'A-ASSOCIATE-RJ':
        return got[0] == 'A-ASSOCIATE-RJ' and (len(want) == 1 or tuple(got[1:]) == tuple(want[1:]))
    return got[0] == want[0]


def run_history(res, case, verbose=False):
    role, hist = case['role'], case['history']
    res.evaluations += 1
    # model run (independent of the implementation)
    m = start_model(role)
    expected = [model_snapshot(m)]
    for sym in hist:
        apply_model(m, sym)
        expected.append(model_snapshot(m))
    script, expected_bytes = build_script(role, hist)
    sim = simnet.Sim(role, script)
    sim.run()
    if len(hist) >= 2:
        res.distinct.add(res_sig(role, hist))
    if case.get('walk') is not None or len(res.samples) < 3:
        res.sample({'role': role, 'history': hist[:40], 'final_state': 'Sta%d' % m.state,
                    'wire': [w[0] for w in sim.wire][:20], 'outcome': sim.outcome}, limit=5)
    for cell in sim.cells:
        res.notes.setdefault('cells_seen', [])
        key = 'Evt%d/Sta%d' % (cell[0] + 1, cell[1] + 1)
        if key not in res.notes['cells_seen']:
            res.notes['cells_seen'].append(key)
    res.count('sim.quiescent-points', sim.quiescent_points)
    res.count('sim.blocking-recvs', sim.blocking_recvs)
    res.count('sim.mid-transfer-injections', sim.mid_delivered)
    judge(res, case, sim, expected, expected_bytes, hist, role)
    coalesced_variant(res, case, expected, hist, role)


def coalesced_variant(res, case, expected, hist, role):
    """The same history with every run of consecutive peer stimuli (PDUs and a
    trailing close / reset) delivered as ONE segment, and - for the acceptor -
    the first segment already waiting when the loop starts.  The model is the
    same: a peer's byte stream means the same however it is delivered."""
    groups = []
    i = 0
    while i < len(hist):
        if hist[i] in F.PEER:
            j = i
            while j < len(hist) and hist[j] in F.PEER:
                j += 1
            grp = hist[i:j]
            if j < len(hist) and hist[j] in ('pCLOSE', 'pRESET'):
                grp = grp + [hist[j]]
                j += 1
            groups.append(grp)
            i = j
        else:
            groups.append([hist[i]])
            i += 1
    pending = role == 'acceptor' and bool(groups) and groups[0][0] in F.PEER
    if not pending and all(len(g) == 1 for g in groups):
        return
    script = []
    expected_bytes = {}
    if role == 'requestor':
        obj, raws = F.user_primitive('uRQ')
        script.append(('user', obj))
        expected_bytes['uRQ'] = raws
    checkpoints = [] if pending else [0]
    done = 0
    for grp in groups:
        done += len(grp)
        checkpoints.append(done)
        if grp[0] in F.PEER:
            blob = b''.join(F.PEER[s] for s in grp if s in F.PEER)
            kind = 'bytes'
            if grp[-1] == 'pCLOSE':
                kind = 'bytes+close'
            elif grp[-1] == 'pRESET':
                kind = 'bytes+reset'
            script.append((kind, blob))
        else:
            sub, eb = build_script('acceptor', grp)
            script.extend(sub)
            expected_bytes.update(eb)
    sim = simnet.Sim(role, script, first_pending=pending)
    sim.run()
    res.count('oracle.coalesced-run')
    judge(res, dict(case, variant='coalesced'), sim, expected, expected_bytes, hist, role,
          checkpoints=checkpoints, variant='coalesced%s' % ('+pending' if pending else ''))


def res_sig(role, hist):
    from .common import sig
    return sig(role, tuple(hist))


def cell_key(snap):
    cell = snap.get('cell')
    if not cell:
        return 'start'
    return 'Sta%d/Evt%d' % (cell[1], cell[0])


def judge(res, case, sim, expected, expected_bytes, hist, role, checkpoints=None, variant=''):
    # the trace has one snapshot per processed stimulus; the requestor's setup
    # stimulus (uRQ) is snapshot 1.  checkpoints: for each snapshot (after the
    # offset) the number of history symbols whose effects it must show.
    offset = 1 if role == 'requestor' else 0
    trace = sim.trace
    nsteps = len(hist)
    if checkpoints is None:
        checkpoints = list(range(0, nsteps + 1))
    if variant:
        role = '%s, %s delivery' % (role, variant)
    for n, k in enumerate(checkpoints):
        want = expected[k]
        idx = n + offset
        label = hist[k - 1] if k else '(start)'
        if idx >= len(trace):
            # the run ended before this stimulus settled
            key = {'raised': 'loop-died', 'blocked': 'blocking-recv', 'budget': 'spinning',
                   'returned': 'loop-returned'}.get(sim.outcome, 'run-ended-early')
            res.violation('%s@%s' % (key, cell_key(want)), 'C05.progress',
                          'after %r (step %d of %r, role %s) the loop ended: %s %s' % (
                              label, k, hist[:12], role, sim.outcome, sim.error), case)
            return
        got = trace[idx]
        res.count('oracle.step-compared')
        if got['state'] + 1 != want['state']:
            res.violation('state@%s' % cell_key(want), 'C05.state',
                          'after %r (step %d, role %s, history %r): state Sta%d, model Sta%d' % (
                              label, k, role, hist[:k], got['state'] + 1, want['state']), case)
            return
        wmatch = expand_wire(want['wire'], expected_bytes)
        gwire = sim.wire[:got['wire_n']]
        graw = sim.wire_pdus[:got['wire_n']]
        if len(gwire) != len(wmatch) or not all(
                wire_matches(mt, d, raw) for mt, d, raw in zip(wmatch, gwire, graw)):
            res.violation('wire@%s' % cell_key(want), 'C05.wire',
                          'after %r (step %d, role %s, history %r): wire %r, model %r' % (
                              label, k, role, hist[:k], gwire[-4:],
                              [w[:1] + w[2:] if w[0] == 'raw' else w for w in wmatch][-4:]), case)
            return
        gind = sim.indications[:got['ind_n']]
        if len(gind) != len(want['ind']) or not all(
                ind_matches(w, g) for w, g in zip(want['ind'], gind)):
            res.violation('indication@%s' % cell_key(want), 'C05.indication',
                          'after %r (step %d, role %s, history %r): indications %r, model %r' % (
                              label, k, role, hist[:k], gind[-4:], want['ind'][-4:]), case)
            return
        if got['closed'] != want['closed']:
            res.violation('closed@%s' % cell_key(want), 'C05.closed',
                          'after %r (step %d, role %s, history %r): connection closed=%r, model %r' % (
                              label, k, role, hist[:k], got['closed'], want['closed']), case)
            return
        if got['timer'] is not None and got['timer'] != want['timer']:
            res.violation('timer@%s' % cell_key(want), 'C05.timer',
                          'after %r (step %d, role %s, history %r): ARTIM running=%r, model %r' % (
                              label, k, role, hist[:k], got['timer'], want['timer']), case)
            return
    if sim.outcome != 'end-of-script':
        res.violation('%s@end' % sim.outcome, 'C05.progress',
                      'history %r (role %s): run ended with %s %s' % (hist[:12], role, sim.outcome,
                                                                       sim.error), case)
        return
    named_assertions(res, case, sim, 'C05')


def named_assertions(res, case, sim, prop):
    """The 'in particular' clauses, evaluated on the implementation's own
    observations (independent of the step comparison)."""
    res.count('monitor.pdata-discipline')
    for described, st in zip(sim.wire, sim.wire_states):
        if described[0] == 'P-DATA-TF' and st + 1 not in (6, 8):
            res.violation('pdata-sent-outside-association', prop + '.M3',
                          'P-DATA-TF written in Sta%d' % (st + 1), case)
        if described[0] == 'MALFORMED':
            res.violation('malformed-output', prop + '.M6',
                          'library wrote bytes the reference parser rejects: %r' % (described,), case)
    for described, st in zip(sim.indications, sim.indication_states):
        if described[0] == 'DIMSE' and st + 1 not in (6, 7):
            res.violation('pdata-indicated-outside-association', prop + '.M3',
                          'DIMSE message indicated in Sta%d' % (st + 1), case)
    res.count('monitor.idle-closed')
    res.count('monitor.timer-iff-waiting')
    over_at = None
    started = False
    for i, snap in enumerate(sim.trace):
        st = snap['state'] + 1
        if st != 1:
            started = True
        if st == 1 and sim.sockets and not snap['closed']:
            res.violation('idle-but-connection-open', prop + '.idle-closed',
                          'snapshot %d: state Sta1 with the transport still open' % i, case)
            break
        if snap['timer'] is not None and snap['timer'] != (st in (2, 13)):
            res.violation('timer-flag-vs-state', prop + '.timer',
                          'snapshot %d: ARTIM running=%r in Sta%d' % (i, snap['timer'], st), case)
            break
        if over_at is None and started and st in (1, 13):
            over_at = snap['ind_n']
        elif over_at is not None and snap['ind_n'] > over_at:
            res.violation('indication-after-association-over', prop + '.no-late-indication',
                          'snapshot %d: %r indicated after the association was over' % (
                              i, sim.indications[over_at:snap['ind_n']]), case)
            break
