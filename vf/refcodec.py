"""Independent reference codecs written from DICOM PS3.8 section 9.3 / Annex D
and PS3.7 section 6.3 / Annex E.  Imports nothing from pynetdicom2 or pydicom.

PDUs are plain dicts ("trees").  ``parse_pdu`` is strict and length driven:
every length field delimits exactly the bytes it governs; anything left over or
missing is a ``RefError``.
"""
from __future__ import annotations

import struct


class RefError(Exception):
    pass


PDU_NAMES = {1: 'A-ASSOCIATE-RQ', 2: 'A-ASSOCIATE-AC', 3: 'A-ASSOCIATE-RJ',
             4: 'P-DATA-TF', 5: 'A-RELEASE-RQ', 6: 'A-RELEASE-RP', 7: 'A-ABORT'}


# --------------------------------------------------------------------------
# parsing
# --------------------------------------------------------------------------
class _Cur(object):
    def __init__(self, data, what):
        self.d = data
        self.p = 0
        self.what = what

    def take(self, n):
        if n < 0 or self.p + n > len(self.d):
            raise RefError('%s: need %d bytes at offset %d, only %d left' % (
                self.what, n, self.p, len(self.d) - self.p))
        out = self.d[self.p:self.p + n]
        self.p += n
        return out

    def u8(self):
        return self.take(1)[0]

    def u16(self):
        return struct.unpack('>H', self.take(2))[0]

    def u32(self):
        return struct.unpack('>I', self.take(4))[0]

    def left(self):
        return len(self.d) - self.p

    def end(self):
        if self.left():
            raise RefError('%s: %d unexpected trailing bytes' % (self.what, self.left()))


def split_stream(data):
    """-> ([complete PDU byte strings], remaining bytes)"""
    out = []
    pos = 0
    while len(data) - pos >= 6:
        length = struct.unpack('>I', data[pos + 2:pos + 6])[0]
        if len(data) - pos < 6 + length:
            break
        out.append(data[pos:pos + 6 + length])
        pos += 6 + length
    return out, data[pos:]


def parse_pdu(data):
    c = _Cur(data, 'PDU')
    ptype = c.u8()
    rsv = c.u8()
    length = c.u32()
    if length != c.left():
        raise RefError('PDU length field %d but %d bytes follow' % (length, c.left()))
    body = _Cur(c.take(length), PDU_NAMES.get(ptype, 'PDU %02X' % ptype))
    if ptype in (1, 2):
        tree = {'type': ptype, 'rsv1': rsv, 'version': body.u16(), 'rsv2': body.u16(),
                'called': body.take(16), 'calling': body.take(16),
                'rsv3': body.take(32), 'items': []}
        while body.left():
            tree['items'].append(_parse_item(body))
        return tree
    if ptype == 3:
        tree = {'type': 3, 'rsv1': rsv, 'rsv2': body.u8(), 'result': body.u8(),
                'source': body.u8(), 'reason': body.u8()}
        body.end()
        return tree
    if ptype == 4:
        pdvs = []
        while body.left():
            ilen = body.u32()
            if ilen < 1:
                raise RefError('PDV item length %d < 1 (context id)' % ilen)
            item = _Cur(body.take(ilen), 'PDV')
            pdvs.append({'ctx': item.u8(), 'data': item.take(item.left())})
        return {'type': 4, 'rsv': rsv, 'pdvs': pdvs}
    if ptype in (5, 6):
        tree = {'type': ptype, 'rsv1': rsv, 'rsv2': body.u32()}
        body.end()
        return tree
    if ptype == 7:
        tree = {'type': 7, 'rsv1': rsv, 'rsv2': body.u8(), 'rsv3': body.u8(),
                'source': body.u8(), 'reason': body.u8()}
        body.end()
        return tree
    raise RefError('unknown PDU type %02XH' % ptype)


def _parse_item(c):
    itype = c.u8()
    rsv = c.u8()
    length = c.u16()
    body = _Cur(c.take(length), 'item %02XH' % itype)
    if itype == 0x10:
        return {'type': 0x10, 'rsv': rsv, 'name': body.take(body.left())}
    if itype == 0x20:
        item = {'type': 0x20, 'rsv1': rsv, 'id': body.u8(), 'rsv2': body.u8(),
                'rsv3': body.u8(), 'rsv4': body.u8(), 'abstract': None, 'ts': []}
        while body.left():
            sub = _parse_syntax(body)
            if sub['type'] == 0x30:
                if item['abstract'] is not None or item['ts']:
                    raise RefError('presentation context: abstract syntax out of place')
                item['abstract'] = sub
            else:
                if item['abstract'] is None:
                    raise RefError('presentation context: transfer syntax before abstract syntax')
                item['ts'].append(sub)
        if item['abstract'] is None:
            raise RefError('presentation context without abstract syntax')
        return item
    if itype == 0x21:
        item = {'type': 0x21, 'rsv1': rsv, 'id': body.u8(), 'rsv2': body.u8(),
                'result': body.u8(), 'rsv3': body.u8(), 'ts': None}
        item['ts'] = _parse_syntax(body)
        if item['ts']['type'] != 0x40:
            raise RefError('presentation context (AC): expected transfer syntax sub-item')
        body.end()
        return item
    if itype == 0x50:
        item = {'type': 0x50, 'rsv': rsv, 'subs': []}
        while body.left():
            item['subs'].append(_parse_sub(body))
        return item
    raise RefError('unknown variable item type %02XH' % itype)


def _parse_syntax(c):
    itype = c.u8()
    rsv = c.u8()
    length = c.u16()
    if itype not in (0x30, 0x40):
        raise RefError('expected syntax sub-item, got %02XH' % itype)
    return {'type': itype, 'rsv': rsv, 'name': c.take(length)}


def _parse_sub(c):
    itype = c.u8()
    rsv = c.u8()
    length = c.u16()
    b = _Cur(c.take(length), 'sub-item %02XH' % itype)
    if itype == 0x51:
        sub = {'type': itype, 'rsv': rsv, 'maxlen': b.u32()}
    elif itype == 0x52:
        sub = {'type': itype, 'rsv': rsv, 'uid': b.take(b.left())}
    elif itype == 0x55:
        sub = {'type': itype, 'rsv': rsv, 'name': b.take(b.left())}
    elif itype == 0x53:
        sub = {'type': itype, 'rsv': rsv, 'invoked': b.u16(), 'performed': b.u16()}
    elif itype == 0x54:
        n = b.u16()
        sub = {'type': itype, 'rsv': rsv, 'uid': b.take(n), 'scu': b.u8(), 'scp': b.u8()}
    elif itype == 0x56:
        n = b.u16()
        sub = {'type': itype, 'rsv': rsv, 'uid': b.take(n), 'appinfo': b.take(b.left())}
    elif itype == 0x58:
        sub = {'type': itype, 'rsv': rsv, 'idtype': b.u8(), 'posrsp': b.u8()}
        sub['primary'] = b.take(b.u16())
        sub['secondary'] = b.take(b.u16())
    elif itype == 0x59:
        sub = {'type': itype, 'rsv': rsv, 'response': b.take(b.u16())}
    else:
        sub = {'type': itype, 'rsv': rsv, 'data': b.take(b.left())}
    b.end()
    return sub


# --------------------------------------------------------------------------
# building
# --------------------------------------------------------------------------
def build_pdu(tree):
    t = tree['type']
    if t in (1, 2):
        body = struct.pack('>HH', tree.get('version', 1), tree.get('rsv2', 0))
        body += _pad16(tree['called']) + _pad16(tree['calling'])
        body += tree.get('rsv3', b'\0' * 32)
        body += b''.join(build_item(i) for i in tree['items'])
        return struct.pack('>BBI', t, tree.get('rsv1', 0), len(body)) + body
    if t == 3:
        body = struct.pack('>BBBB', tree.get('rsv2', 0), tree['result'], tree['source'],
                           tree['reason'])
        return struct.pack('>BBI', 3, tree.get('rsv1', 0), 4) + body
    if t == 4:
        body = b''.join(struct.pack('>IB', len(p['data']) + 1, p['ctx']) + p['data']
                        for p in tree['pdvs'])
        return struct.pack('>BBI', 4, tree.get('rsv', 0), len(body)) + body
    if t in (5, 6):
        return struct.pack('>BBII', t, tree.get('rsv1', 0), 4, tree.get('rsv2', 0))
    if t == 7:
        return struct.pack('>BBIBBBB', 7, tree.get('rsv1', 0), 4, tree.get('rsv2', 0),
                           tree.get('rsv3', 0), tree['source'], tree['reason'])
    raise RefError('cannot build PDU type %r' % t)


def _pad16(title):
    if len(title) > 16:
        raise RefError('AE title longer than 16')
    return title + b' ' * (16 - len(title))


def _tlv(itype, rsv, value):
    return struct.pack('>BBH', itype, rsv, len(value)) + value


def build_item(item):
    t = item['type']
    if t == 0x10:
        return _tlv(t, item.get('rsv', 0), item['name'])
    if t == 0x20:
        value = struct.pack('>BBBB', item['id'], item.get('rsv2', 0), item.get('rsv3', 0),
                            item.get('rsv4', 0))
        value += _tlv(0x30, item['abstract'].get('rsv', 0), item['abstract']['name'])
        value += b''.join(_tlv(0x40, ts.get('rsv', 0), ts['name']) for ts in item['ts'])
        return _tlv(t, item.get('rsv1', 0), value)
    if t == 0x21:
        value = struct.pack('>BBBB', item['id'], item.get('rsv2', 0), item['result'],
                            item.get('rsv3', 0))
        value += _tlv(0x40, item['ts'].get('rsv', 0), item['ts']['name'])
        return _tlv(t, item.get('rsv1', 0), value)
    if t == 0x50:
        return _tlv(t, item.get('rsv', 0), b''.join(build_sub(s) for s in item['subs']))
    raise RefError('cannot build item %r' % t)


def build_sub(sub):
    t = sub['type']
    rsv = sub.get('rsv', 0)
    if t == 0x51:
        return _tlv(t, rsv, struct.pack('>I', sub['maxlen']))
    if t == 0x52:
        return _tlv(t, rsv, sub['uid'])
    if t == 0x55:
        return _tlv(t, rsv, sub['name'])
    if t == 0x53:
        return _tlv(t, rsv, struct.pack('>HH', sub['invoked'], sub['performed']))
    if t == 0x54:
        return _tlv(t, rsv, struct.pack('>H', len(sub['uid'])) + sub['uid'] +
                    struct.pack('>BB', sub['scu'], sub['scp']))
    if t == 0x56:
        return _tlv(t, rsv, struct.pack('>H', len(sub['uid'])) + sub['uid'] + sub['appinfo'])
    if t == 0x58:
        return _tlv(t, rsv, struct.pack('>BBH', sub['idtype'], sub['posrsp'],
                                        len(sub['primary'])) + sub['primary'] +
                    struct.pack('>H', len(sub['secondary'])) + sub['secondary'])
    if t == 0x59:
        return _tlv(t, rsv, struct.pack('>H', len(sub['response'])) + sub['response'])
    return _tlv(t, rsv, sub['data'])


# --------------------------------------------------------------------------
# command sets (PS3.7 6.3.1: implicit VR little endian, group 0000)
# --------------------------------------------------------------------------
COMMAND_FIELDS = {
    'C-STORE-RQ': 0x0001, 'C-STORE-RSP': 0x8001, 'C-GET-RQ': 0x0010, 'C-GET-RSP': 0x8010,
    'C-FIND-RQ': 0x0020, 'C-FIND-RSP': 0x8020, 'C-MOVE-RQ': 0x0021, 'C-MOVE-RSP': 0x8021,
    'C-ECHO-RQ': 0x0030, 'C-ECHO-RSP': 0x8030, 'N-EVENT-REPORT-RQ': 0x0100,
    'N-EVENT-REPORT-RSP': 0x8100, 'N-GET-RQ': 0x0110, 'N-GET-RSP': 0x8110,
    'N-SET-RQ': 0x0120, 'N-SET-RSP': 0x8120, 'N-ACTION-RQ': 0x0130, 'N-ACTION-RSP': 0x8130,
    'N-CREATE-RQ': 0x0140, 'N-CREATE-RSP': 0x8140, 'N-DELETE-RQ': 0x0150,
    'N-DELETE-RSP': 0x8150, 'C-CANCEL-RQ': 0x0FFF,
}
COMMAND_NAMES = dict((v, k) for k, v in COMMAND_FIELDS.items())

TAG_GROUP_LENGTH = (0x0000, 0x0000)
TAG_AFFECTED_SOP_CLASS = (0x0000, 0x0002)
TAG_REQUESTED_SOP_CLASS = (0x0000, 0x0003)
TAG_COMMAND_FIELD = (0x0000, 0x0100)
TAG_MESSAGE_ID = (0x0000, 0x0110)
TAG_MESSAGE_ID_RSP = (0x0000, 0x0120)
TAG_MOVE_DESTINATION = (0x0000, 0x0600)
TAG_PRIORITY = (0x0000, 0x0700)
TAG_DATA_SET_TYPE = (0x0000, 0x0800)
TAG_STATUS = (0x0000, 0x0900)
TAG_AFFECTED_SOP_INSTANCE = (0x0000, 0x1000)
TAG_REQUESTED_SOP_INSTANCE = (0x0000, 0x1001)
TAG_EVENT_TYPE = (0x0000, 0x1002)
TAG_ACTION_TYPE = (0x0000, 0x1008)
TAG_REMAINING = (0x0000, 0x1020)
TAG_COMPLETED = (0x0000, 0x1021)
TAG_FAILED = (0x0000, 0x1022)
TAG_WARNING = (0x0000, 0x1023)
TAG_MOVE_ORIGINATOR_AET = (0x0000, 0x1030)
TAG_MOVE_ORIGINATOR_ID = (0x0000, 0x1031)

# VRs of command elements (PS3.7 Annex E.1)
_US = {TAG_COMMAND_FIELD, TAG_MESSAGE_ID, TAG_MESSAGE_ID_RSP, TAG_PRIORITY, TAG_DATA_SET_TYPE,
       TAG_STATUS, TAG_EVENT_TYPE, TAG_ACTION_TYPE, TAG_REMAINING, TAG_COMPLETED, TAG_FAILED,
       TAG_WARNING, TAG_MOVE_ORIGINATOR_ID}
_UL = {TAG_GROUP_LENGTH}
_UI = {TAG_AFFECTED_SOP_CLASS, TAG_REQUESTED_SOP_CLASS, TAG_AFFECTED_SOP_INSTANCE,
       TAG_REQUESTED_SOP_INSTANCE}
_AE = {TAG_MOVE_DESTINATION, TAG_MOVE_ORIGINATOR_AET}


def parse_elements(data):
    """Raw implicit-VR-LE element reader: [(tag, raw value bytes, offset, end)]."""
    out = []
    pos = 0
    while pos < len(data):
        if len(data) - pos < 8:
            raise RefError('command set: truncated element header at offset %d' % pos)
        group, elem, length = struct.unpack('<HHI', data[pos:pos + 8])
        if length == 0xFFFFFFFF:
            raise RefError('command set: undefined length at offset %d' % pos)
        if pos + 8 + length > len(data):
            raise RefError('command set: element (%04X,%04X) length %d overruns' % (
                group, elem, length))
        out.append(((group, elem), data[pos + 8:pos + 8 + length], pos, pos + 8 + length))
        pos += 8 + length
    return out


def element_value(tag, raw):
    if tag in _US:
        if len(raw) == 0:
            return None
        if len(raw) != 2:
            raise RefError('element %r: US value of %d bytes' % (tag, len(raw)))
        return struct.unpack('<H', raw)[0]
    if tag in _UL:
        if len(raw) == 0:
            return None
        if len(raw) != 4:
            raise RefError('element %r: UL value of %d bytes' % (tag, len(raw)))
        return struct.unpack('<I', raw)[0]
    if tag in _UI:
        return raw.rstrip(b'\0').decode('ascii', 'replace')
    if tag in _AE:
        return raw.decode('ascii', 'replace').strip(' ')
    return raw


def parse_command_set(data, strict=True):
    """-> dict tag->value plus '_problems' list (well-formedness findings)."""
    elems = parse_elements(data)
    problems = []
    values = {}
    last = None
    for tag, raw, start, end in elems:
        if tag[0] != 0:
            problems.append('element %04X,%04X outside group 0000' % tag)
        if last is not None and tag <= last:
            problems.append('tags not ascending: %04X,%04X after %04X,%04X' % (tag + last))
        if len(raw) % 2:
            problems.append('odd value length %d for %04X,%04X' % ((len(raw),) + tag))
        last = tag
        try:
            values[tag] = element_value(tag, raw)
        except RefError as exc:
            problems.append(str(exc))
    if not elems or elems[0][0] != TAG_GROUP_LENGTH:
        problems.append('group length element (0000,0000) is not first / missing')
    else:
        declared = values.get(TAG_GROUP_LENGTH)
        actual = len(data) - elems[0][3]
        if declared != actual:
            problems.append('group length says %r but %d bytes follow it' % (declared, actual))
    if TAG_COMMAND_FIELD not in values:
        problems.append('command field (0000,0100) missing')
    if TAG_DATA_SET_TYPE not in values:
        problems.append('command data set type (0000,0800) missing')
    values['_problems'] = problems
    return values


def _enc_elem(tag, value):
    if tag in _US:
        raw = struct.pack('<H', value)
    elif tag in _UL:
        raw = struct.pack('<I', value)
    elif tag in _UI:
        raw = value.encode('ascii') if isinstance(value, str) else value
        if len(raw) % 2:
            raw += b'\0'
    elif tag in _AE:
        raw = value.encode('ascii') if isinstance(value, str) else value
        if len(raw) % 2:
            raw += b' '
    else:
        raw = value
        if len(raw) % 2:
            raw += b'\0'
    return struct.pack('<HHI', tag[0], tag[1], len(raw)) + raw


def build_command_set(fields):
    """fields: dict tag -> value (without group length). Reference encoder."""
    body = b''.join(_enc_elem(tag, fields[tag]) for tag in sorted(fields)
                    if tag != TAG_GROUP_LENGTH)
    return _enc_elem(TAG_GROUP_LENGTH, len(body)) + body


# --------------------------------------------------------------------------
# DIMSE fragmentation (PS3.8 Annex E)
# --------------------------------------------------------------------------
def fragment(command, data, max_len, ctx, cmd_sizes=None, data_sizes=None, empty_last_cmd=False,
             empty_last_data=False):
    """Reference fragmenter: list of PDVs {'ctx','data'} (data[0] = control
    header).  max_len bounds the P-DATA-TF variable field when there is one PDV
    per PDU; *_sizes optionally give explicit fragment sizes."""
    room = max(1, max_len - 6) if max_len else max(len(command), len(data or b''), 1)

    def cut(blob, sizes):
        parts = []
        pos = 0
        if sizes:
            for s in sizes:
                if pos >= len(blob):
                    break
                parts.append(blob[pos:pos + s])
                pos += s
        while pos < len(blob):
            parts.append(blob[pos:pos + room])
            pos += room
        return parts

    pdvs = []
    cparts = cut(command, cmd_sizes)
    # a sender that streams may close a command set / data set with a fragment that carries the
    # "last" bit and no payload at all
    if empty_last_cmd:
        cparts.append(b'')
    for i, part in enumerate(cparts):
        hdr = 0x01 | (0x02 if i == len(cparts) - 1 else 0)
        pdvs.append({'ctx': ctx, 'data': bytes([hdr]) + part})
    if data:
        dparts = cut(data, data_sizes)
        if empty_last_data:
            dparts.append(b'')
        for i, part in enumerate(dparts):
            hdr = 0x00 | (0x02 if i == len(dparts) - 1 else 0)
            pdvs.append({'ctx': ctx, 'data': bytes([hdr]) + part})
    return pdvs


def group_pdvs(pdvs, composition):
    """composition: list of group sizes summing to len(pdvs) -> list of P-DATA-TF trees."""
    out = []
    pos = 0
    for size in composition:
        out.append({'type': 4, 'rsv': 0, 'pdvs': pdvs[pos:pos + size]})
        pos += size
    assert pos == len(pdvs)
    return out


def compositions(n):
    """All 2^(n-1) compositions of n as lists of positive group sizes."""
    if n == 0:
        yield []
        return
    for mask in range(1 << (n - 1)):
        comp = []
        run = 1
        for i in range(n - 1):
            if mask >> i & 1:
                comp.append(run)
                run = 1
            else:
                run += 1
        comp.append(run)
        yield comp


class StreamChecker(object):
    """Independent checker of a DIMSE fragment stream (one message).

    feed() PDVs in order; problems() lists what PS3.8 Annex E forbids."""

    def __init__(self, ctx=None):
        self.ctx = ctx
        self.command = []
        self.data = []
        self.command_done = False
        self.data_done = False
        self.n = 0
        self.problems = []

    def feed(self, ctx, value):
        self.n += 1
        if self.ctx is None:
            self.ctx = ctx
        elif ctx != self.ctx:
            self.problems.append('fragment %d on context %r, message uses %r' % (
                self.n, ctx, self.ctx))
        if len(value) < 1:
            self.problems.append('fragment %d has no message control header' % self.n)
            return
        hdr = value[0]
        if hdr & 0xFC:
            self.problems.append('fragment %d: control header %02XH has reserved bits' % (
                self.n, hdr))
        if len(value) < 2:
            self.problems.append('fragment %d is empty' % self.n)
        is_cmd = bool(hdr & 1)
        last = bool(hdr & 2)
        if is_cmd:
            if self.command_done:
                self.problems.append('command fragment %d after the last command fragment' % self.n)
            if self.data:
                self.problems.append('command fragment %d after a data fragment' % self.n)
            self.command.append(value[1:])
            if last:
                self.command_done = True
        else:
            if not self.command_done:
                self.problems.append('data fragment %d before the last command fragment' % self.n)
            if self.data_done:
                self.problems.append('data fragment %d after the last data fragment' % self.n)
            self.data.append(value[1:])
            if last:
                self.data_done = True

    def finish(self, expect_data):
        if not self.command_done:
            self.problems.append('no last command fragment')
        if expect_data and not self.data_done:
            self.problems.append('no last data fragment')
        if not expect_data and self.data:
            self.problems.append('data fragments although none expected')
        return self.problems

    def command_bytes(self):
        return b''.join(self.command)

    def data_bytes(self):
        return b''.join(self.data)
