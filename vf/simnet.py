"""E2 - deterministic transport, virtual clock and scripted scheduler around the
*real* ``DULServiceProvider.run()`` loop (executed in the calling thread).

Stimuli are injected only at synchronisation points of the loop:

* the provider polls its user queue while nothing is pending from the network
  and no table event is waiting (a *quiescent point*), or
* the provider calls a blocking ``recv`` with nothing to read.

Observations (wire bytes, indications, closed flag, ARTIM flag, state) are
snapshotted once per stimulus, when its effects have settled.
"""
from __future__ import annotations

import contextlib
import errno
import queue

from pynetdicom2 import dulprovider, fsm

from . import refcodec


class EndOfScript(BaseException):
    """Script exhausted - neutral end of a run."""


class WouldBlockForever(BaseException):
    """The provider sits in a blocking recv while the next stimulus (time,
    user primitive, stop request) is one a blocked thread cannot observe."""


class BudgetExceeded(BaseException):
    """Too many loop iterations without reaching a synchronisation point."""


class HarnessMismatch(Exception):
    """The simulation cannot drive this provider implementation (inconclusive)."""


class FakeSocket(object):
    def __init__(self, sim, name='sock'):
        self.sim = sim
        self.name = name
        self.inbound = bytearray()
        self.peer_closed = False
        self.reset = False
        self.closed = False
        self.sent = []            # byte strings passed to sendall/send
        self.send_error = None    # exception class to raise on next send
        self.connected_to = None
        self.recv_sizes = []

    # -- what the library uses
    def recv(self, n, *flags):
        if self.closed:
            raise OSError(errno.EBADF, 'recv on closed socket')
        self.sim.tick('recv')
        if n == 0:
            return b''
        if not self.readable():
            self.sim.on_blocking_recv(self)
        if self.inbound:
            data = bytes(self.inbound[:n])
            del self.inbound[:n]
            self.recv_sizes.append(len(data))
            return data
        if self.reset:
            self.reset = False
            self.peer_closed = True
            raise ConnectionResetError(errno.ECONNRESET, 'Connection reset by peer')
        if self.peer_closed:
            return b''
        raise AssertionError('FakeSocket.recv: nothing to deliver')

    def sendall(self, data, *flags):
        if self.closed:
            raise OSError(errno.EBADF, 'send on closed socket')
        if self.send_error is not None:
            raise self.send_error(errno.EPIPE, 'Broken pipe')
        self.sim.tick('send')
        self.sent.append(bytes(data))
        self.sim.wire_written(self, bytes(data))

    def send(self, data, *flags):
        self.sendall(data)
        return len(data)

    def close(self):
        if not self.closed:
            self.closed = True
            self.sim.closed_sockets += 1

    def shutdown(self, how):
        pass

    def connect(self, address):
        self.connected_to = address
        if isinstance(self.sim.connect_error, BaseException):
            raise self.sim.connect_error
        if self.sim.connect_error is not None:
            raise self.sim.connect_error(errno.ECONNREFUSED, 'Connection refused')

    def fileno(self):
        if self.closed:
            return -1
        return 1000 + id(self) % 1000

    def settimeout(self, t):
        pass

    def setblocking(self, flag):
        pass

    def setsockopt(self, *a):
        pass

    def getpeername(self):
        return ('peer', 104)

    def __bool__(self):
        return True

    # -- driver side
    def readable(self):
        return bool(self.inbound) or self.peer_closed or self.reset

    def deliverable(self):
        return (not self.closed) and self.readable()


class FakeSelect(object):
    error = OSError

    def __init__(self, sim):
        self.sim = sim

    def select(self, rlist, wlist, xlist, timeout=None):
        self.sim.tick('select')
        self.sim.on_select()
        ready = []
        for s in rlist:
            if isinstance(s, FakeSocket):
                if s.closed:
                    raise OSError(errno.EBADF, 'select on closed socket')
                if s.readable():
                    ready.append(s)
        return ready, list(wlist), []

    # tolerate `from select import select` style use of the patched name
    __call__ = select


class FakeTime(object):
    def __init__(self, sim):
        self.sim = sim

    def time(self):
        return self.sim.now

    # tolerate `from time import time` style use of the patched name
    def __call__(self):
        return self.sim.now

    def monotonic(self):
        return self.sim.now

    def sleep(self, dt):
        self.sim.tick('sleep')
        self.sim.now += max(dt, 0)


class FakeSocketModule(object):
    """Stands in for the ``socket`` module inside fsm (AE-1 creates a socket)."""
    AF_INET = 2
    SOCK_STREAM = 1
    error = OSError
    timeout = TimeoutError

    def __init__(self, sim):
        self.sim = sim

    def socket(self, *a, **kw):
        s = FakeSocket(self.sim, 'client')
        self.sim.sockets.append(s)
        return s

    def create_connection(self, address, *a, **kw):
        s = self.socket()
        s.connect(address)
        return s

    # tolerate `from socket import socket` style use of the patched name
    def __call__(self, *a, **kw):
        return self.socket(*a, **kw)

    def __getattr__(self, name):
        import socket as real
        return getattr(real, name)


class ScriptedUserQueue(object):
    """Replaces provider.from_service_user; its get() is the scheduling point."""

    def __init__(self, sim):
        self.sim = sim
        self.extra = []

    def get(self, block=True, timeout=None):
        return self.sim.on_user_poll()

    def get_nowait(self):
        return self.sim.on_user_poll()

    def put(self, item, *a, **kw):
        # a primitive queued through provider.send() by code under test
        self.sim.pending_user.append(item)

    def put_nowait(self, item):
        self.put(item)

    def empty(self):
        return not self.sim.pending_user

    def qsize(self):
        return len(self.sim.pending_user)


class RecordingQueue(queue.Queue):
    """provider.to_service_user replacement: records every indication at the
    moment it is queued, together with the protocol state at that moment."""

    def __init__(self, sim):
        queue.Queue.__init__(self)
        self.sim = sim

    def put(self, item, *a, **kw):
        sim = self.sim
        sim.indication_objs.append(item)
        sim.indications.append(describe_indication(item))
        sim.indication_states.append(sim.state())
        return queue.Queue.put(self, item, *a, **kw)


class SimProvider(dulprovider.DULServiceProvider):
    """The real provider, except that constructing it does not start a thread."""

    def start(self):
        pass


@contextlib.contextmanager
def patched(sim):
    """Install the simulated select/time/socket into the library modules."""
    missing = [name for mod, name in ((dulprovider, 'select'), (dulprovider, 'time'),
                                      (fsm, 'socket')) if not hasattr(mod, name)]
    if missing:
        raise RuntimeError('cannot install simulated transport, module attribute(s) missing: %r'
                           % missing)
    saved = (dulprovider.select, dulprovider.time, fsm.socket)
    dulprovider.select = FakeSelect(sim)
    dulprovider.time = FakeTime(sim)
    fsm.socket = FakeSocketModule(sim)
    try:
        yield
    finally:
        dulprovider.select, dulprovider.time, fsm.socket = saved


def describe_indication(item):
    """Abstract an object found on to_service_user."""
    if isinstance(item, tuple):
        msg = item[0]
        return ('DIMSE', type(msg).__name__, item[1] if len(item) > 1 else None)
    t = getattr(item, 'pdu_type', None)
    if t == 7:
        return ('A-ABORT', getattr(item, 'source', None), getattr(item, 'reason_diag', None))
    if t == 3:
        return ('A-ASSOCIATE-RJ', item.result, item.source, item.reason_diag)
    if t in refcodec.PDU_NAMES:
        return (refcodec.PDU_NAMES[t],)
    return ('?', type(item).__name__)


def describe_wire(data):
    """-> list of abstract PDUs written, or ('MALFORMED', reason)."""
    out = []
    pdus, rest = refcodec.split_stream(data)
    for raw in pdus:
        try:
            tree = refcodec.parse_pdu(raw)
        except refcodec.RefError as exc:
            out.append(('MALFORMED', str(exc), raw[:16].hex()))
            continue
        t = tree['type']
        if t == 7:
            out.append(('A-ABORT', tree['source'], tree['reason']))
        elif t == 3:
            out.append(('A-ASSOCIATE-RJ', tree['result'], tree['source'], tree['reason']))
        else:
            out.append((refcodec.PDU_NAMES[t],))
    if rest:
        out.append(('MALFORMED', 'incomplete PDU of %d bytes written' % len(rest), rest[:16].hex()))
    return out


class Sim(object):
    """One run of the real provider loop under a stimulus script.

    script items (tuples):
      ('bytes', b)      peer bytes arrive (one TCP segment)
      ('close',)        peer closes its side (orderly)
      ('reset',)        connection reset by peer
      ('time', dt)      virtual clock advances by dt seconds
      ('user', obj)     local user hands a primitive (PDU object or generator)
      ('stop',)         stop requested (is_killed = True)
    """

    def __init__(self, role, script, max_pdu_length=65536, store_in_file=(), get_file_cb=None,
                 reactive_user=None, budget=400, first_pending=False, accepted_contexts=None):
        self.role = role
        self.script = list(script)
        self.pos = 0
        self.now = 1000.0
        self.sockets = []
        self.closed_sockets = 0
        self.connect_error = None
        self.pending_user = []
        self.reactive_user = reactive_user
        self.budget = budget
        self.ticks = 0
        self.ticks_since_sync = 0
        self.tick_counts = {}
        self.max_ticks_between_syncs = 0
        self.trace = []            # one snapshot per stimulus (plus the initial one)
        self.wire = []             # abstract PDUs written, in order
        self.wire_raw = []         # raw byte strings written (one per sendall)
        self.wire_pdus = []        # raw bytes of each PDU written (parallel to self.wire)
        self.wire_states = []      # protocol state when each write happened
        self.indications = []      # abstract indications, in order
        self.indication_objs = []
        self.indication_states = []
        self.seen_indications = 0
        self.cells = []            # (event, state before, state after) seen by M2
        self.timer_ops = []
        self.timer_running = None
        self.blocking_recvs = 0
        self.urgent_user = None
        self.outcome = None        # 'end-of-script' | 'returned' | 'raised' | 'blocked' | 'budget'
        self.error = None
        self.first_pending = first_pending
        self.current_stimulus = None
        self.quiescent_points = 0
        self.skipped = []          # script positions of peer stimuli that could not be delivered
        self.mid_delivered = 0     # stimuli delivered between two fragments of an outgoing message
        with patched(self):
            sock = None
            if role == 'acceptor':
                sock = FakeSocket(self, 'server')
                self.sockets.append(sock)
            self.provider = SimProvider(frozenset(store_in_file), get_file_cb, sock, max_pdu_length)
        self.provider.from_service_user = ScriptedUserQueue(self)
        self.provider.to_service_user = RecordingQueue(self)
        if accepted_contexts is not None:
            self.provider.accepted_contexts = accepted_contexts
        self._install_recorders()

    # ------------------------------------------------------------ recorders
    def _install_recorders(self):
        prov = self.provider
        timer = getattr(prov, 'timer', None)
        if timer is not None and all(hasattr(timer, n) for n in ('start', 'stop', 'restart')):
            self.timer_running = False
            sim = self

            def wrap(name, running):
                orig = getattr(timer, name)

                def op(*a, **kw):
                    sim.timer_ops.append(name)
                    sim.timer_running = running
                    return orig(*a, **kw)
                setattr(timer, name, op)
            # restart() calls stop() and start() internally: order of wrapping matters little,
            # the last op decides the flag
            wrap('start', True)
            wrap('stop', False)
            wrap('restart', True)
        sm = getattr(prov, 'state_machine', None)
        if sm is not None and hasattr(sm, 'action'):
            orig_action = sm.action
            sim = self

            def action(event):
                before = sm.current_state
                sim.tick('action')
                try:
                    return orig_action(event)
                finally:
                    sim.cells.append((event, before, sm.current_state))
            sm.action = action

    # ------------------------------------------------------------ bookkeeping
    def tick(self, what):
        self.ticks += 1
        self.ticks_since_sync += 1
        self.tick_counts[what] = self.tick_counts.get(what, 0) + 1
        if self.ticks_since_sync > self.budget:
            raise BudgetExceeded('%d loop operations without reaching a synchronisation point '
                                 '(last stimulus %r)' % (self.ticks_since_sync,
                                                         self.describe_stimulus()))

    def describe_stimulus(self):
        s = self.current_stimulus
        if s is None:
            return None
        if s[0].startswith('bytes'):
            return (s[0], len(s[1]))
        if s[0] == 'user':
            return ('user', type(s[1]).__name__)
        return s

    def state(self):
        return self.provider.state_machine.current_state

    def wire_written(self, sock, data):
        self.wire_raw.append(data)
        pdus, rest = refcodec.split_stream(data)
        for raw in pdus + ([rest] if rest else []):
            self.wire.extend(describe_wire(raw))
            self.wire_pdus.append(raw)
            self.wire_states.append(self.state())

    def active_socket(self):
        s = self.provider.dul_socket
        return s if isinstance(s, FakeSocket) else None

    def all_closed(self):
        return all(s.closed for s in self.sockets)

    def drain_indications(self):
        """Indications queued since the last call (they are recorded when put)."""
        got = self.indication_objs[self.seen_indications:]
        self.seen_indications = len(self.indication_objs)
        return got

    def snapshot(self):
        new = self.drain_indications()
        snap = {'stimulus': self.describe_stimulus(), 'wire_n': len(self.wire),
                'ind_n': len(self.indications), 'closed': self.all_closed(),
                'timer': self.timer_running, 'state': self.state(),
                'now': self.now, 'pos': self.pos}
        self.trace.append(snap)
        self.max_ticks_between_syncs = max(self.max_ticks_between_syncs, self.ticks_since_sync)
        self.ticks_since_sync = 0
        return new

    # ------------------------------------------------------------ sync points
    def quiescent(self):
        if self.provider.event:
            return False
        s = self.active_socket()
        if s is not None and s.deliverable():
            return False
        return True

    def _buffer_has_complete_pdu(self):
        raw = self.provider.raw_pdu
        pdus, _ = refcodec.split_stream(bytes(raw))
        return bool(pdus)

    def on_user_poll(self):
        self.tick('poll')
        if self.urgent_user is not None:
            # second half of a ('both', peer stimulus, primitive) step: the user's request has been
            # waiting in the queue since the segment arrived - it is there at the very next poll,
            # whatever the provider is doing
            obj, self.urgent_user = self.urgent_user, None
            return obj
        if not self.quiescent():
            raise queue.Empty
        self.quiescent_points += 1
        new = self.snapshot()
        if self.reactive_user is not None:
            for item in new:
                for prim in self.reactive_user(self, item) or ():
                    self.pending_user.append(prim)
        if self.pending_user:
            self.current_stimulus = ('user', self.pending_user[0])
            return self.pending_user.pop(0)
        while True:
            stim = self.next_stimulus()
            if stim is None:
                raise EndOfScript()
            if stim[0] == 'mid':
                # the message it was meant to interleave with is already out: ordinary delivery
                stim = stim[1]
                self.current_stimulus = stim
            kind = stim[0]
            if kind == 'user':
                return stim[1]
            if kind in ('bytes', 'close', 'reset', 'bytes+close', 'bytes+reset'):
                if not self.deliver_to_socket(stim):
                    continue      # nothing can arrive on a closed connection: skipped
                raise queue.Empty
            if kind == 'time':
                self.now += stim[1]
                raise queue.Empty
            if kind == 'both':
                # a segment arrives and the local user issues a primitive at the same moment
                if not self.deliver_to_socket(stim[1]):
                    return stim[2]
                self.urgent_user = stim[2]
                raise queue.Empty
            if kind == 'stop':
                self.provider.is_killed = True
                raise queue.Empty
            raise ValueError('unknown stimulus %r' % (stim,))

    def next_stimulus(self):
        if self.pos >= len(self.script):
            self.current_stimulus = None
            return None
        stim = self.script[self.pos]
        self.pos += 1
        self.current_stimulus = stim
        return stim

    def peek_stimulus(self):
        return self.script[self.pos] if self.pos < len(self.script) else None

    def deliver_to_socket(self, stim):
        s = self.active_socket()
        if s is None or s.closed:
            self.skipped.append(self.pos - 1)
            return False
        if stim[0].startswith('bytes'):
            s.inbound += stim[1]
        # 'bytes+close': the segment and the peer's FIN are both there when the provider looks
        if stim[0].endswith('close'):
            s.peer_closed = True
        elif stim[0].endswith('reset'):
            s.reset = True
        return True

    def on_select(self):
        """Second injection point: a peer stimulus marked ('mid', stim) arrives while the
        provider is in the middle of sending a fragmented message (its fragment generator is
        active), i.e. between two of its own P-DATA-TF PDUs."""
        nxt = self.peek_stimulus()
        if nxt is not None and nxt[0] == 'mid' and getattr(self.provider, 'dimse_gen', None) is not None:
            self.next_stimulus()
            self.current_stimulus = nxt[1]
            self.mid_delivered += 1
            self.deliver_to_socket(nxt[1])

    def on_blocking_recv(self, sock):
        """recv() with nothing to read: a real blocking socket would wait."""
        self.blocking_recvs += 1
        self.snapshot()
        while True:
            nxt = self.peek_stimulus()
            if nxt is None:
                raise EndOfScript()
            if nxt[0] in ('bytes', 'close', 'reset', 'bytes+close', 'bytes+reset'):
                self.next_stimulus()
                if nxt[0] == 'bytes' and not nxt[1]:
                    continue
                if nxt[0].startswith('bytes'):
                    sock.inbound += nxt[1]
                if nxt[0].endswith('close'):
                    sock.peer_closed = True
                elif nxt[0].endswith('reset'):
                    sock.reset = True
                return
            raise WouldBlockForever('blocking recv while next stimulus is %r' % (nxt[0],))

    # ------------------------------------------------------------ running
    def run(self):
        if self.first_pending:
            # the first peer segment is already waiting when the loop starts
            nxt = self.peek_stimulus()
            if nxt is not None and nxt[0].startswith('bytes') and self.active_socket() is not None:
                self.next_stimulus()
                self.deliver_to_socket(nxt)
        with patched(self):
            try:
                self.provider.run()
                self.outcome = 'returned'
            except EndOfScript:
                self.outcome = 'end-of-script'
            except WouldBlockForever as exc:
                self.outcome = 'blocked'
                self.error = str(exc)
            except BudgetExceeded as exc:
                self.outcome = 'budget'
                self.error = str(exc)
            except BaseException as exc:
                if isinstance(exc, (KeyboardInterrupt, SystemExit)):
                    raise
                import traceback
                self.outcome = 'raised'
                self.error = '%s: %s' % (type(exc).__name__, exc)
                self.error_tb = traceback.format_exc()[-1200:]
                # An error that originates inside the simulated transport itself and is not one
                # of the socket errors it raises on purpose means the simulation does not fit
                # the code under observation (e.g. the library reaches the network some other
                # way): that is a harness problem, never a verdict on the library.
                tb = exc.__traceback__
                while tb is not None and tb.tb_next is not None:
                    tb = tb.tb_next
                origin = tb.tb_frame.f_code.co_filename if tb is not None else ''
                if origin.endswith('simnet.py') and not isinstance(exc, OSError):
                    raise HarnessMismatch('simulated transport does not fit the provider loop: %s\n%s'
                                          % (self.error, self.error_tb))
            self.final = self.snapshot_final()
        return self

    def snapshot_final(self):
        self.drain_indications()
        return {'wire_n': len(self.wire), 'ind_n': len(self.indications),
                'closed': self.all_closed(), 'timer': self.timer_running,
                'state': self.state(), 'outcome': self.outcome}

    def kill_returns(self, timeout=5.0):
        """Public-API probe: after run() has ended, provider.kill() must return."""
        import threading
        t = threading.Thread(target=self.provider.kill, daemon=True)
        t.start()
        t.join(timeout)
        return not t.is_alive()
