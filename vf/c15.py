"""C15 - C-STORE delivers the data set intact end to end; stored files are never
clobbered.

Full stack over loopback TCP with real threads (E5): the library's storage
user sends seeded data sets (from memory and from Part-10 files) in three
transfer syntaxes under asymmetric maximum PDU lengths to (a) the directory
backed ``StorageAE``, (b) an ``AE`` with the default temporary-file reception
and (c) a minimal in-memory SCP written to the documented service interface.
Monitors: content / UID / status equality at the handler and at the sender,
directory conservation (old files unchanged, exactly one new readable file per
store, also for repeated instance UIDs and concurrent senders) and an audit
hook that reports a truncating open of an existing file in the storage
directory.
"""
from __future__ import annotations

import contextlib
import copy
import hashlib
import os
import shutil
import sys
import tempfile
import threading

from . import inject, tcpnet, svc
from .common import Result, rng, chunked

LEVEL = 'exploration'
ENGINE = 'tcpnet'
TECHNIQUE = ('end-to-end content/UID/status equality on unique data sets, directory conservation snapshots (path -> '
             'sha256) around every store, and a sys.addaudithook monitor for truncating opens, on the full stack over '
             'loopback TCP with real threads and seeded delay injection')
LEVEL_TEXT = ('seeded data sets x 3 transfer syntaxes x asymmetric PDU sizes (incl. 0 = unlimited) x memory/file source '
              'x three reception modes x handler outcomes x repeated and concurrent stores of one instance UID; a '
              'sample of inputs and OS interleavings')
LEVEL_NOTE = 'pydicom is trusted as data-set codec on both ends; real-thread tier sees only produced interleavings'
RULE = ('case = (reception mode, transfer syntax, client/server maximum, source kind, data-set shape, handler outcome, '
        'repeat pattern); distinct = same tuple; non-trivial = every case transmits at least one data set')
ASSUMPTIONS = ['loopback TCP is reliable; library time-outs (5 s) are re-run alone before they count']
REQUIRED = ['oracle.content-equal', 'oracle.status-returned', 'oracle.directory-conservation',
            'monitor.truncating-open', 'oracle.transfer-survives-a-busy-provider']

N = {'quick': 320, 'thorough': 6000}
TS = ['1.2.840.10008.1.2', '1.2.840.10008.1.2.1', '1.2.840.10008.1.2.2']
MAXES = [0, 64, 128, 1024, 16384, 65536]
MODES = ['storage-dir', 'storage-dir', 'tempfile', 'memory']

_watch = {'dirs': [], 'hits': []}
_pre = {}        # storage directory -> names that were in it before the server started
_hook_installed = []


def _audit(event, args):
    if event != 'open' or not _watch['dirs']:
        return
    try:
        path, mode, flags = args[0], args[1], args[2]
        if not isinstance(path, str):
            return
        if isinstance(flags, int) and flags & os.O_TRUNC:
            for d in _watch['dirs']:
                if path.startswith(d) and os.path.exists(path) and os.path.getsize(path) > 0:
                    _watch['hits'].append(path)
    except Exception:
        pass


def install_hook():
    if not _hook_installed:
        sys.addaudithook(_audit)
        _hook_installed.append(True)


def exhaustive(tier):
    return False


def plan(tier, seed):
    return [{'kind': 'stall', 'round': k} for k in range(1 if tier == 'quick' else 3)] + \
        [{'lo': p[0], 'hi': p[-1] + 1} for p in chunked(range(N[tier]), 16) if p]


def run_shard(spec, tier, seed):
    res = Result()
    if spec.get('kind') == 'stall':
        from . import c15stall
        c15stall.run_round(res, {'stall': True, 'round': spec['round'], 'seed': seed})
        return res
    install_hook()
    sigs = set()
    for i in range(spec['lo'], spec['hi']):
        run_case(res, {'index': i, 'seed': seed}, sigs)
    res.notes['interleaving_signatures'] = sorted(sigs)[:400]
    return res


def replay(case):
    res = Result()
    if case.get('stall'):
        from . import c15stall
        c15stall.run_round(res, case)
        return res
    install_hook()
    run_case(res, case, set())
    return res


def make_dataset(r, tag, size, sop_class, instance):
    import pydicom
    ds = pydicom.Dataset()
    ds.SOPClassUID = sop_class
    ds.SOPInstanceUID = instance
    ds.PatientName = 'STORE^%s' % tag
    ds.PatientID = 'x' * r.choice([1, 2, 3, 8])          # odd and even lengths
    ds.StudyInstanceUID = '1.2.3.%d' % r.randrange(10 ** 6)
    ds.Rows = r.randrange(65536)
    ds.Columns = r.randrange(65536)
    items = []
    for k in range(r.choice([0, 1, 3])):
        it = pydicom.Dataset()
        it.CodeValue = 'C%d' % k
        it.CodeMeaning = 'm' * r.choice([1, 2, 5])
        inner = pydicom.Dataset()
        inner.TextValue = 'nested %s %d' % (tag, k)
        it.ContentSequence = pydicom.Sequence([inner])
        items.append(it)
    ds.ConceptNameCodeSequence = pydicom.Sequence(items)
    ds.ImageComments = 'c' * min(size, 10000)
    if size > 10000:
        ds.PixelData = bytes(r.getrandbits(8) for _ in range(256)) * ((size - 10000) // 256 + 1)
        ds['PixelData'].VR = 'OB'
        ds.BitsAllocated = 8
    return ds


def canon(ds):
    """Transfer-syntax independent fingerprint of a data set."""
    from pynetdicom2 import dsutils
    import copy
    d = copy.deepcopy(ds)
    if hasattr(d, 'file_meta'):
        del d.file_meta
    d.is_little_endian = True
    d.is_implicit_VR = True
    if 'PixelData' in d:
        d['PixelData'].VR = 'OB'
    return hashlib.sha256(dsutils.encode(d, True, True)).hexdigest()


def snapshot(path):
    out = {}
    for name in sorted(os.listdir(path)):
        p = os.path.join(path, name)
        with open(p, 'rb') as f:
            out[name] = hashlib.sha256(f.read()).hexdigest()
    return out


def run_case(res, case, sigs, attempt=0):
    from pynetdicom2 import applicationentity, sopclass, exceptions, statuses, dimsemessages
    import pynetdicom2
    import pydicom
    from pydicom import uid
    import time
    t0 = time.monotonic()
    i, seed = case['index'], case['seed']
    r = rng(seed, 'c15', i)
    mode = MODES[i % len(MODES)]
    ts = TS[(i // len(MODES)) % 3]
    client_max = r.choice(MAXES)
    server_max = r.choice(MAXES)
    limit = min(m for m in (client_max, server_max) if m) if (client_max or server_max) else 16384
    chunk = max(limit - 6, 1)
    nstores = r.choice([1, 1, 2, 3, 4])
    repeat_uid = mode == 'storage-dir' and r.random() < 0.6
    concurrent = mode == 'storage-dir' and repeat_uid and r.random() < 0.4
    many = mode == 'storage-dir' and i % 29 == 5
    if many:
        # the same instance stored a few dozen times: every copy gets a name of its own
        nstores, repeat_uid, concurrent = 36, True, False
    source = r.choice(['memory', 'file'])
    close_in_handler = r.random() < 0.3
    outcomes = [r.choice([0x0000, 0x0000, 0xB000, 0xB007, 0xA700, 0xC123, 'raise']) for _ in range(nstores)]
    sop_class = r.choice([svc.CT, svc.MR])
    jitter = r.choice([0.0, 0.002]) * (0 if attempt else 1)
    res.evaluations += 1 if not attempt else 0
    res.distinct.add('%s|%s|%d|%d|%s|%d|%s|%s' % (mode, ts[-1], client_max, server_max, source, nstores,
                                                  repeat_uid, concurrent))
    where = '%s ts=%s client_max=%d server_max=%d source=%s stores=%d repeat=%s concurrent=%s' % (
        mode, ts, client_max, server_max, source, nstores, repeat_uid, concurrent)
    net = tcpnet.Net(seed=seed * 7919 + i, jitter=jitter, delay=r.choice([0, 0, 0.0005]))
    workdir = tempfile.mkdtemp(prefix='vf-c15-')
    storage_dir = os.path.join(workdir, 'store')
    os.mkdir(storage_dir)
    _pre[storage_dir] = set()
    received = []            # what the handler saw
    lock = threading.Lock()
    # concurrent senders negotiate different transfer syntaxes (same context id on every association)
    ts_of = [TS[(TS.index(ts) + k) % 3] if concurrent else ts for k in range(nstores)]
    datasets = []
    for k in range(nstores):
        size = r.choice([5, chunk - 1, chunk, chunk + 1, 3 * chunk + 2, min(40 * chunk, 200000)])
        size = max(1, min(size, 200000 if not many else 60 - k))
        if client_max == 0 and server_max == 0 and k == 0 and r.random() < 0.5:
            size = 1600000           # one P-DATA-TF of more than a MiB (no limit on either side)
        inst = '1.2.826.55.%d.%d' % (i, 0 if repeat_uid else k)
        datasets.append(make_dataset(r, '%d^%d' % (i, k), size, sop_class, inst))

    snaps = []
    if mode == 'storage-dir' and repeat_uid and r.random() < 0.5:
        # the directory already holds this instance (and a duplicate of it) from an earlier run of
        # the server: what is there stays as it is
        for name in ('1.2.826.55.%d.0.dcm' % i, '1.2.826.55.%d.0.dcm_1' % i):
            with open(os.path.join(storage_dir, name), 'wb') as f:
                f.write(b'stored by an earlier server process: ' + name.encode())
            _pre[storage_dir].add(name)
        res.count('sim.directory-not-empty-at-start')
        if concurrent:
            snaps.append(snapshot(storage_dir))
    forwarding = mode != 'memory' and r.random() < 0.3

    def handler(self, context, ds):
        with lock:
            k = len(received)
            received.append(None)
        entry = {'sop_class': str(context.sop_class), 'ts': str(context.supported_ts)}
        try:
            if mode == 'memory':
                from pynetdicom2 import dsutils
                d = dsutils.decode(ds, context.supported_ts.is_implicit_VR,
                                   context.supported_ts.is_little_endian)
                entry['meta'] = None
            else:
                entry['path'] = getattr(ds, 'name', None)
                d = pydicom.dcmread(ds)
                if close_in_handler:
                    # an application that consumes the file and closes it itself
                    ds.close()
                entry['meta'] = (str(d.file_meta.MediaStorageSOPClassUID),
                                 str(d.file_meta.MediaStorageSOPInstanceUID),
                                 str(d.file_meta.TransferSyntaxUID))
            entry['canon'] = canon(d)
            entry['tag'] = str(d.PatientName)
            entry['inst'] = str(d.SOPInstanceUID)
        except Exception as exc:
            entry['error'] = '%s: %s' % (type(exc).__name__, exc)
        received[k] = entry
        o = outcomes[k % len(outcomes)] if not concurrent else 0
        if o == 'raise':
            raise exceptions.EventHandlingError('refused by handler')
        return statuses.Status(o, dimsemessages.CStoreRSPMessage)

    base = pynetdicom2.StorageAE if mode == 'storage-dir' else applicationentity.AE
    lazy = mode != 'memory' and not forwarding and r.random() < 0.25
    registered = []

    def on_association_request(self, asce, assoc):
        # an application that registers its storage service when the first association arrives
        with lock:
            if lazy and not registered:
                registered.append(True)
                self.add_scp(sopclass.storage_scp)
    members = {'on_receive_store': handler, 'on_association_request': on_association_request}
    r_file = rng(seed, 'c15-get-file', i)
    if mode == 'tempfile' and r_file.random() < 0.4:
        # the documented override of get_file(): instances are kept in memory (a file-like object
        # without an OS file behind it), after a record header of the application's own
        import io
        pad = r_file.choice([0, 0, 512])
        res.count('sim.get-file-returns-bytesio')

        def get_file(self, context, command_set):
            tmp, start = base.get_file(self, context, command_set)
            tmp.seek(start)
            buf = io.BytesIO(b'R' * pad + tmp.read())
            tmp.close()
            buf.seek(0, 2)
            return buf, pad
        members['get_file'] = get_file
    Server = type('Server', (tcpnet.TapServerMixin, base), members)
    error = None
    returned = []
    _watch['dirs'].append(storage_dir)
    hits_before = len(_watch['hits'])
    inj = {}
    try:
        # concurrent senders: stretch the windows inside the file-creation path (vf/inject.py)
        with tcpnet.instrument(net), (inject.line_delays(inject.STORAGE_PATH, seed=seed * 17 + i, stats=inj)
                                      if concurrent else contextlib.nullcontext()):
            try:
                if mode == 'storage-dir':
                    server = Server(storage_dir, 'STORESCP', 0, max_pdu_length=server_max)
                else:
                    server = Server('STORESCP', 0, max_pdu_length=server_max)
                server.net = net
                server.timeout = 5 if not attempt else 30        # (re-runs are patient)
                if mode == 'memory':
                    server.add_scp(memory_scp([svc.CT, svc.MR]))
                else:
                    if forwarding:
                        # a forwarding node: the same classes are also sent on (SCU role, registered first)
                        server.add_scu(sopclass.storage_scu, [svc.CT, svc.MR])
                    if lazy:
                        res.count('sim.service-registered-in-the-association-hook')
                    elif forwarding:
                        # (the ready-made storage_scp lists 139 classes: an entity serving all of them
                        # cannot request an association at all - known finding more-than-128-classes)
                        def two_class_storage(asce, ctx, msg):
                            return sopclass.storage_scp(asce, ctx, msg)
                        two_class_storage.sop_classes = [svc.CT, svc.MR]
                        two_class_storage.store_in_file = True
                        server.add_scp(two_class_storage)
                    else:
                        server.add_scp(sopclass.storage_scp)
                with tcpnet.serving(server):
                    remote = {'aet': 'STORESCP', 'address': '127.0.0.1', 'port': server.port}
                    def client_run(ks, out):
                        u = uid.UID(ts_of[ks[0]])
                        client = applicationentity.ClientAE('STORESCU', supported_ts=[ts_of[ks[0]]],
                                                            max_pdu_length=client_max)
                        client.timeout = 5 if not attempt else 30
                        client.add_scu(sopclass.storage_scu, [svc.CT, svc.MR])
                        with client.request_association(remote) as assoc:
                            service = assoc.get_scu(sop_class)
                            for k in ks:
                                ds = datasets[k]
                                if source == 'file':
                                    path = os.path.join(workdir, 'src-%d.dcm' % k)
                                    write_part10(ds, path, u, incomplete_meta=(i + k) % 3 == 0)
                                    arg = path
                                elif (i + k) % 4 == 1:
                                    # a data set that was read from a file of ANOTHER instance and then
                                    # re-identified: the file meta it still carries is not what is sent
                                    old = copy.deepcopy(ds)
                                    old.SOPInstanceUID = '1.2.826.55.999.%d.%d' % (i, k)
                                    path = os.path.join(workdir, 'old-%d.dcm' % k)
                                    write_part10(old, path, u)
                                    arg = pydicom.dcmread(path)
                                    arg.SOPInstanceUID = ds.SOPInstanceUID
                                    res.count('sim.re-identified-data-set')
                                else:
                                    arg = ds
                                if mode == 'storage-dir' and not concurrent:
                                    snaps.append(snapshot(storage_dir))
                                st = service(arg, k + 1)
                                out.append((k, int(st)))
                    if concurrent:
                        outs = [[] for _ in range(nstores)]
                        threads = [threading.Thread(target=_guard, args=(client_run, [k], outs[k]))
                                   for k in range(nstores)]
                        for t in threads:
                            t.start()
                        for t in threads:
                            t.join(30)
                        for o in outs:
                            for item in o:
                                if isinstance(item, BaseException):
                                    error = item
                                else:
                                    returned.append(item)
                    else:
                        client_run(range(nstores), returned)
                    if mode == 'storage-dir':
                        snaps.append(snapshot(storage_dir))
                    if mode == 'storage-dir' and forwarding:
                        # the node forwards an instance (SCU role of the same classes): the response it
                        # receives is a message without a data set - nothing is to be stored for it
                        forwarded = forward_one(server, datasets[0], sop_class, ts)
                        after = snapshot(storage_dir)
                        res.count('oracle.forwarding-leaves-the-store-alone')
                        if forwarded != 0 or after != snaps[-1]:
                            raise AssertionError('forwarding an instance returned status %r and changed the storage '
                                                 'directory: %r' % (forwarded, sorted(set(after) ^ set(snaps[-1]))))
                    errs = getattr(server, 'handler_errors', [])
                    if errs and error is None:
                        error = errs[0]
            except Exception as exc:
                error = exc
        tcpnet.wait_quiet(0, 3.0)
        sigs.add(net.signature())
        if error is not None and not isinstance(error, AssertionError) and attempt < 2 and (
                tcpnet.is_timeout(error) or time.monotonic() - t0 >= 4.0):
            # (one side's 5 s time-out reaches the other as an abort: a failure that took that long is re-run
            # alone, without injected delays and with patient time-outs, before it counts)
            res.count('flaky-timeouts')
            return run_case(res, case, sigs, attempt + 1)
        if concurrent:
            res.count('inject.lines-delayed', inj.get('hits', 0))
        judge(res, case, where, error, datasets, received, returned, outcomes, snaps, storage_dir,
              mode, ts_of, sop_class, concurrent, hits_before)
    finally:
        _watch['dirs'].remove(storage_dir)
        shutil.rmtree(workdir, ignore_errors=True)


def _guard(fn, ks, out):
    try:
        fn(ks, out)
    except BaseException as exc:
        out.append(exc)


def forward_one(server, ds, sop_class, ts):
    """The serving entity sends one instance on to a reference destination; -> status it got."""
    from . import refcodec as R

    def destination(peer):
        peer.accept(max_len=16384)
        ctx, cmd, data, lengths, problems = peer.recv_dimse()
        peer.send_dimse(ctx, {R.TAG_AFFECTED_SOP_CLASS: cmd.get(R.TAG_AFFECTED_SOP_CLASS),
                              R.TAG_COMMAND_FIELD: 0x8001, R.TAG_MESSAGE_ID_RSP: cmd.get(R.TAG_MESSAGE_ID),
                              R.TAG_STATUS: 0, R.TAG_AFFECTED_SOP_INSTANCE: cmd.get(R.TAG_AFFECTED_SOP_INSTANCE)})
        nxt = peer.recv_pdu()
        if nxt['type'] == 5:
            peer.send_pdu({'type': 6})
    dest = tcpnet.PeerServer(destination, timeout=10.0)
    try:
        with server.request_association({'aet': 'NEXT', 'address': '127.0.0.1', 'port': dest.port}) as assoc:
            return int(assoc.get_scu(sop_class)(ds, 77))
    finally:
        dest.close()


def write_part10(ds, path, ts, incomplete_meta=False):
    import pydicom
    from pydicom.dataset import FileDataset, FileMetaDataset
    import copy
    meta = FileMetaDataset()
    meta.MediaStorageSOPClassUID = ds.SOPClassUID
    meta.MediaStorageSOPInstanceUID = ds.SOPInstanceUID
    meta.TransferSyntaxUID = ts
    meta.ImplementationClassUID = '1.2.826.0.1.3680043.9.9999.2'
    fd = FileDataset(path, copy.deepcopy(ds), file_meta=meta, preamble=b'\0' * 128)
    fd.is_little_endian = ts.is_little_endian
    fd.is_implicit_VR = ts.is_implicit_VR
    if not incomplete_meta:
        fd.save_as(path, write_like_original=False)
        return
    # a file whose meta header lacks the SOP Instance UID (written by sloppy software): the
    # storage user then has to look the UID up in the data set itself
    from pydicom.filewriter import write_file_meta_info
    from pydicom.filebase import DicomFileLike
    from pynetdicom2 import dsutils
    del meta.MediaStorageSOPInstanceUID
    with open(path, 'wb') as f:
        f.write(b'\0' * 128 + b'DICM')
        write_file_meta_info(DicomFileLike(f), meta, enforce_standard=False)
        f.write(dsutils.encode(ds, ts.is_implicit_VR, ts.is_little_endian))


def memory_scp(classes):
    """A minimal in-memory storage provider written to the documented service interface."""
    from pynetdicom2 import dimsemessages, exceptions, statuses

    def scp(asce, ctx, msg):
        try:
            status = asce.ae.on_receive_store(ctx, msg.data_set)
        except exceptions.EventHandlingError:
            status = statuses.C_STORE_CANNON_UNDERSTAND
        rsp = dimsemessages.CStoreRSPMessage()
        rsp.message_id_being_responded_to = msg.message_id
        rsp.affected_sop_instance_uid = msg.affected_sop_instance_uid
        rsp.sop_class_uid = msg.sop_class_uid
        rsp.status = int(status)
        asce.send(rsp, ctx.id)
    scp.sop_classes = list(classes)
    return scp


def judge(res, case, where, error, datasets, received, returned, outcomes, snaps, storage_dir, mode, ts_of,
          sop_class, concurrent, hits_before):
    import pydicom
    res.sample({'case': case, 'where': where, 'returned': ['%d:%04X' % (k, s) for k, s in returned],
                'received': [e.get('tag') if e else None for e in received]}, limit=5)
    if error is not None:
        res.violation('store-raises:' + type(error).__name__, 'C15.run', '%s: %s: %s' % (
            where, type(error).__name__, error), case)
        return
    res.count('oracle.content-equal')
    if len(received) != len(datasets):
        res.violation('handler-call-count', 'C15.content', '%s: handler called %d times for %d stores' % (
            where, len(received), len(datasets)), case)
    sent = {canon(ds): str(ds.PatientName) for ds in datasets}
    seen = []
    for k, entry in enumerate(received):
        if not entry or 'error' in entry:
            res.violation('handler-cannot-read-data-set', 'C15.content', '%s: store %d: %r' % (
                where, k, entry), case)
            continue
        if entry['canon'] not in sent:
            res.violation('content-differs', 'C15.content', '%s: handler received %s with other content '
                          'than any data set sent' % (where, entry.get('tag')), case)
        seen.append(entry['canon'])
        try:
            ts = ts_of[int(str(entry.get('tag')).split('^')[-1])]
        except (IndexError, ValueError):
            ts = ts_of[0]
        if entry['sop_class'] != sop_class or entry['ts'] != ts:
            res.violation('context-differs', 'C15.content', '%s: handler context %s / %s' % (
                where, entry['sop_class'], entry['ts']), case)
        if entry.get('meta') and (entry['meta'][0] != sop_class or entry['meta'][2] != ts or
                                  not entry['meta'][1].startswith('1.2.826.55.') or
                                  entry['meta'][1] != entry.get('inst')):
            res.violation('file-meta-differs', 'C15.content', '%s: stored file meta %r' % (
                where, entry['meta']), case)
    if not concurrent and seen != [canon(ds) for ds in datasets][:len(seen)]:
        res.violation('content-out-of-order', 'C15.content', '%s: data sets reached the handler in another '
                      'order' % where, case)
    res.count('oracle.status-returned')
    if not concurrent:
        want = [(k, 0xC000 if outcomes[k] == 'raise' else outcomes[k]) for k in range(len(datasets))]
        if returned != want:
            res.violation('status-differs', 'C15.status', '%s: sender got %r, handler returned %r' % (
                where, ['%04X' % s for _, s in returned], [str(o) for o in outcomes]), case)
    elif sorted(returned) != [(k, 0) for k in range(len(datasets))]:
        res.violation('status-differs', 'C15.status', '%s: concurrent senders got %r' % (where, returned), case)
    res.count('monitor.truncating-open')
    hits = _watch['hits'][hits_before:]
    if hits:
        res.violation('truncating-open-of-stored-file', 'C15.audit',
                      '%s: existing stored file opened with O_TRUNC: %s' % (
                          where, [os.path.basename(h) for h in hits[:3]]), case)
    if mode != 'storage-dir':
        res.count('oracle.directory-conservation', 0)
        return
    res.count('oracle.directory-conservation')
    final = snaps[-1] if snaps else {}
    pre = _pre.get(storage_dir, set())
    if len(final) != len(datasets) + len(pre):
        res.violation('stored-file-count', 'C15.directory', '%s: %d files in the storage directory after %d '
                      'stores (%d were there before): %r' % (where, len(final), len(datasets), len(pre),
                                                             sorted(final)), case)
    for a, b in zip(snaps, snaps[1:]):
        changed = [n for n in a if b.get(n) != a[n]]
        if changed:
            res.violation('stored-file-overwritten', 'C15.directory', '%s: previously stored file(s) %r '
                          'changed or vanished' % (where, changed), case)
            break
        if not concurrent and len(b) != len(a) + 1:
            res.violation('store-did-not-add-one-file', 'C15.directory', '%s: directory went from %d to %d '
                          'files' % (where, len(a), len(b)), case)
            break
    # every stored file is a readable Part-10 file holding one of the data sets sent
    for name in sorted(final):
        if name in pre:
            continue
        try:
            d = pydicom.dcmread(os.path.join(storage_dir, name))
            ok = canon(d) in sent
        except Exception as exc:
            ok = False
        if not ok:
            res.violation('stored-file-unreadable-or-foreign', 'C15.directory',
                          '%s: %s is not a readable copy of a data set sent' % (where, name), case)
            break
