"""Case streams shared by C01 and C02: enumerated structures + seeded random trees.

A case is identified by a JSON-able descriptor so that a replay regenerates
exactly the same tree: {'src': 'adjacency'|'items'|'boundary'|'random', ...}.
"""
from __future__ import annotations

from . import gen
from .common import rng

ENUMS = {
    'adjacency': gen.adjacency_trees,
    'items': gen.item_order_trees,
    'boundary': gen.boundary_trees,
}


def enum_cases(which, seed):
    r = rng(seed, 'enum', which)
    for name, tree in ENUMS[which](r):
        yield {'src': which, 'name': list(name), 'seed': seed}, tree


def random_case(seed, index):
    r = rng(seed, 'random-pdu', index)
    return {'src': 'random', 'index': index, 'seed': seed}, gen.gen_any(r)


def subperm_cases(seed):
    r = rng(seed, 'enum', 'subperm')
    for name, perm in gen.sub_permutation_trees(r, 3):
        for t in (1, 2):
            tree = gen._assoc_with_subs(r, t, list(perm))
            yield {'src': 'subperm', 'name': list(name) + [t], 'seed': seed}, tree


def regenerate(desc):
    """Tree for a case descriptor (used by --replay)."""
    src = desc['src']
    if src == 'random':
        return random_case(desc['seed'], desc['index'])[1]
    it = subperm_cases(desc['seed']) if src == 'subperm' else enum_cases(src, desc['seed'])
    for d, tree in it:
        if d['name'] == desc['name']:
            return tree
    raise KeyError('case %r not found' % (desc,))


def features(tree):
    """Coarse structural signature of a tree: what makes it distinct."""
    t = tree['type']
    if t in (1, 2):
        items = []
        for i in tree['items']:
            if i['type'] == 0x50:
                items.append(('U',) + tuple(str(s['type']) if s['type'] in (
                    0x51, 0x52, 0x53, 0x54, 0x55, 0x56, 0x58, 0x59) else 'g' for s in i['subs']))
            elif i['type'] == 0x20:
                items.append(('Q', len(i['ts'])))
            elif i['type'] == 0x21:
                items.append(('A', i['result']))
            else:
                items.append(('C',))
        return (t, len(tree['called']), len(tree['calling']), tuple(items))
    if t == 4:
        return (4, tuple(min(len(p['data']), 70) if len(p['data']) < 65000 else len(p['data'])
                         for p in tree['pdvs']))
    if t == 3:
        return (3, tree['result'], tree['source'], tree['reason'])
    if t == 7:
        return (7, tree['source'], tree['reason'])
    return (t, tree['rsv1'], tree['rsv2'])
