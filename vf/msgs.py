"""DIMSE message factory for the E4 workloads (C06, C07, C08, C10, C17).

The table of command-field codes is transcribed from PS3.7 (9.3 / 10.3),
independently of dimsemessages.MESSAGE_TYPE.
"""
from __future__ import annotations

import struct

from . import gen, refcodec as R

# class name -> (PS3.7 command field, is request, has a SOP instance field)
STANDARD = {
    'CStoreRQMessage': 0x0001, 'CStoreRSPMessage': 0x8001, 'CGetRQMessage': 0x0010,
    'CGetRSPMessage': 0x8010, 'CFindRQMessage': 0x0020, 'CFindRSPMessage': 0x8020,
    'CMoveRQMessage': 0x0021, 'CMoveRSPMessage': 0x8021, 'CEchoRQMessage': 0x0030,
    'CEchoRSPMessage': 0x8030, 'CCancelRQMessage': 0x0FFF, 'NEventReportRQMessage': 0x0100,
    'NEventReportRSPMessage': 0x8100, 'NGetRQMessage': 0x0110, 'NGetRSPMessage': 0x8110,
    'NSetRQMessage': 0x0120, 'NSetRSPMessage': 0x8120, 'NActionRQMessage': 0x0130,
    'NActionRSPMessage': 0x8130, 'NCreateRQMessage': 0x0140, 'NCreateRSPMessage': 0x8140,
    'NDeleteRQMessage': 0x0150, 'NDeleteRSPMessage': 0x8150,
}
CLASS_NAMES = sorted(STANDARD)
assert len(CLASS_NAMES) == 23


def message_class(name):
    from pynetdicom2 import dimsemessages
    return getattr(dimsemessages, name)


def fill(msg, r, uid_len=None, unset_prob=0.15):
    """Give every command field of the message a value (through the command
    set keywords the class itself lists).  Returns {keyword: value}."""
    from pydicom import datadict
    values = {}
    for kw in msg.command_fields:
        if kw == 'CommandGroupLength':
            continue
        if r.random() < unset_prob:
            continue
        tag = datadict.tag_for_keyword(kw)
        vr = datadict.dictionary_VR(tag)
        if vr == 'UI':
            n = uid_len if uid_len is not None else r.choice([1, 2, 9, 10, 25, 26, 63, 64])
            val = gen.rand_uid(r, n).decode()
            if not val:
                val = '1'
        elif vr == 'US':
            val = r.choice([0, 1, 2, 0x7FFF, 0x8000, 0xFFFE, 0xFFFF, r.randrange(65536)])
        elif vr == 'AE':
            val = gen.rand_title(r, r.randrange(1, 17)).decode()
        elif vr == 'AT':
            val = [r.randrange(0, 0xFFFFFFFF) for _ in range(r.choice([1, 2, 3]))]
            if len(val) == 1:
                val = val[0]
        else:
            val = 'X'
        setattr(msg.command_set, kw, val)
        values[kw] = val
    return values


def make(name, r, uid_len=None, unset_prob=0.15):
    cls = message_class(name)
    msg = cls()
    values = fill(msg, r, uid_len, unset_prob)
    return msg, values


def reference_command(name, r, with_data):
    """Reference-built command set bytes for a message of class `name`."""
    # PS3.7: Command Data Set Type 0101H = no data set, *any other value* = a data set follows
    fields = {R.TAG_COMMAND_FIELD: STANDARD[name],
              R.TAG_DATA_SET_TYPE: (0x0001 if r.random() < 0.6 else r.choice(
                  [0x0000, 0x0102, 0x0100, 0x0001, 0xFFFF, 0x0201])) if with_data else 0x0101}
    is_rsp = bool(STANDARD[name] & 0x8000) or name == 'CCancelRQMessage'
    if name in ('NGetRQMessage', 'NSetRQMessage', 'NActionRQMessage', 'NDeleteRQMessage'):
        fields[R.TAG_REQUESTED_SOP_CLASS] = gen.rand_uid(r, r.randrange(5, 40)).decode().strip('.') or '1'
        fields[R.TAG_REQUESTED_SOP_INSTANCE] = gen.rand_uid(r, r.randrange(5, 40)).decode() or '1'
    elif name != 'CCancelRQMessage':
        fields[R.TAG_AFFECTED_SOP_CLASS] = gen.rand_uid(r, r.randrange(5, 40)).decode() or '1'
    if is_rsp:
        fields[R.TAG_MESSAGE_ID_RSP] = r.randrange(65536)
        if name != 'CCancelRQMessage':
            fields[R.TAG_STATUS] = r.choice([0, 0xFF00, 0xA700, 0xC000])
    else:
        fields[R.TAG_MESSAGE_ID] = r.randrange(65536)
    if name in ('CStoreRQMessage', 'CFindRQMessage', 'CGetRQMessage', 'CMoveRQMessage'):
        fields[R.TAG_PRIORITY] = r.choice([0, 1, 2])
    if name == 'CMoveRQMessage':
        # (AE titles travel space-padded, often to their full 16 characters)
        fields[R.TAG_MOVE_DESTINATION] = r.choice(['DEST', 'DEST'.ljust(16), 'STORE-SCP-1 ', '  DEST  '])
    if name in ('CStoreRQMessage', 'CStoreRSPMessage'):
        fields[R.TAG_AFFECTED_SOP_INSTANCE] = gen.rand_uid(r, r.randrange(5, 40)).decode() or '1'
    return R.build_command_set(fields), fields


def expected_values(values):
    """{keyword: value} -> {tag: comparable value} for parse_command_set output."""
    from pydicom import datadict
    out = {}
    for kw, val in values.items():
        tag = datadict.tag_for_keyword(kw)
        key = (tag >> 16, tag & 0xFFFF)
        out[key] = val
    return out


def compare_field(tag, want, got_raw_or_value):
    """Compare a value the message carried with what the reference reader saw."""
    got = got_raw_or_value
    if isinstance(want, list):
        if isinstance(got, (bytes, bytearray)):
            vals = [struct.unpack('<HH', got[i:i + 4]) for i in range(0, len(got), 4)]
            return [(w >> 16, w & 0xFFFF) for w in want] == vals
        return False
    if isinstance(got, (bytes, bytearray)):
        if isinstance(want, int):
            if len(got) == 4:
                g, e = struct.unpack('<HH', got)
                return (want >> 16, want & 0xFFFF) == (g, e)
            return False
        # leading and trailing spaces of AE / UI / string values are not significant (PS3.5 6.2)
        return got.strip(b'\0 ').decode('ascii', 'replace') == str(want).strip(' ')
    if isinstance(want, str):
        return str(got).strip('\0 ') == want.strip(' ')
    return got == want
