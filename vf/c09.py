"""C09 - the acceptor answers every proposed presentation context correctly.

The real ``AssociationAcceptor`` is constructed normally (stub provider, E4):
its ``handle()`` runs inline, receives an A-ASSOCIATE-RQ decoded by the library
from reference-built bytes, answers through ``accept()`` and then routes one
DIMSE request per proposed context id to a recording service.  The reply is
read back with the reference parser and judged by plain set arithmetic over
the configuration and the request.
"""
from __future__ import annotations

import itertools

from . import fixtures as F, libmap, refcodec as R, stubdul
from .common import Result, rng, chunked

LEVEL = 'exploration'
ENGINE = 'stubdul+refcodec'
TECHNIQUE = ('exhaustive small-universe sweep of association requests x AE configurations through the real '
             'AssociationAcceptor (stub provider); reply parsed by the reference codec and judged by independent set '
             'arithmetic; routing observed with a recording service')
LEVEL_TEXT = ('all requests with up to n contexts over {3 served candidates + 1 never served} x every ordered list of '
              '1..3 of 4 transfer syntaxes x all 128 AE configurations are executed (exhaustive within n), larger '
              'seeded random requests beyond')
LEVEL_NOTE = 'requests are well-formed and in canonical item order; the rejection reason code is not constrained'
RULE = ('case = (served subset, supported transfer-syntax subset, list of (abstract syntax, ordered transfer-syntax '
        'list)); distinct = same tuple; non-trivial = at least one context proposed')
ASSUMPTIONS = ['user information item last, Maximum Length first sub-item (what conformant peers send)']
REQUIRED = ['oracle.reply-structure', 'oracle.accept-iff', 'oracle.routing', 'oracle.titles-repeated',
            'oracle.extra-user-items', 'oracle.duplicate-transfer-syntax-entries', 'oracle.entity-also-scu', 'oracle.entity-reconfigured', 'sim.logging-at-debug-level']

CLASSES = [b'1.2.840.10008.1.1', b'1.2.840.10008.5.1.4.1.1.2', b'1.2.840.10008.5.1.4.1.2.1.1']
STRANGER = b'1.2.840.10008.5.1.4.1.1.999'
TSS = [F.IMPLICIT, F.EXPLICIT, b'1.2.840.10008.1.2.2', b'1.2.840.10008.1.2.4.50']
TS_LISTS = [list(p) for n in (1, 2, 3) for p in itertools.permutations(range(4), n)]
assert len(TS_LISTS) == 40
# ... and the lists in which a transfer syntax is proposed more than once
DUP_LISTS = [list(p) for n in (2, 3) for p in itertools.product(range(4), repeat=n) if len(set(p)) < n]   # 44
TS_LISTS = TS_LISTS + DUP_LISTS
NDISTINCT = 160
CONTEXT_CHOICES = [(a, tl) for a in range(4) for tl in range(40)] + \
    [(a, tl) for a in range(4) for tl in range(40, 84)]                    # 160 + 176


def _extras():
    """User-information sub-items a request may carry besides the two mandatory ones.  None of
    them is part of the acceptance rule."""
    out = [{'type': 0x55, 'rsv': 0, 'name': b'REFPEER_1'},
           {'type': 0x53, 'rsv': 0, 'invoked': 1, 'performed': 1}]
    for a in range(4):
        for scu, scp in ((0, 0), (0, 1), (1, 0), (1, 1)):
            out.append({'type': 0x54, 'rsv': 0, 'uid': STRANGER if a == 3 else CLASSES[a], 'scu': scu,
                        'scp': scp})
    for a in range(3):
        out.append({'type': 0x56, 'rsv': 0, 'uid': CLASSES[a], 'appinfo': b'\x01\x00\x01'})
    out.append({'type': 0x58, 'rsv': 0, 'idtype': 1, 'posrsp': 0, 'primary': b'user', 'secondary': b''})
    out.append({'type': 0x58, 'rsv': 0, 'idtype': 2, 'posrsp': 1, 'primary': b'user', 'secondary': b'secret'})
    return out


EXTRAS = _extras()          # 23, already in the order in which they may follow each other
NRANDOM = {'quick': 4000, 'thorough': 150000}


def exhaustive(tier):
    return False


def plan(tier, seed):
    specs = []
    configs = [(s, t) for s in range(8) for t in range(16)]
    for part in chunked(configs, 8):
        specs.append({'name': 'sweep', 'configs': part, 'n': 1 if tier == 'quick' else 2})
    for part in chunked(range(NRANDOM[tier]), 8):
        if part:
            specs.append({'name': 'random', 'lo': part[0], 'hi': part[-1] + 1})
    for part in chunked(range(NTCP[tier]), 8):
        if part:
            specs.append({'name': 'tcp', 'lo': part[0], 'hi': part[-1] + 1})
    # the same work once more in a process whose logging is turned up to DEBUG (vf/runner.py)
    specs.append({'name': 'sweep', 'configs': [(5, 3), (7, 15), (2, 6)], 'n': 1, 'debug_logging': True})
    specs.append({'name': 'random', 'lo': 0, 'hi': 200, 'debug_logging': True})
    specs.append({'name': 'tcp', 'lo': 0, 'hi': 8, 'debug_logging': True})
    # ... and in an interpreter started with -O (vf/runner.py)
    specs.append({'name': 'sweep', 'configs': [(6, 5), (7, 15), (1, 9)], 'n': 1, 'optimize': True})
    specs.append({'name': 'random', 'lo': 200, 'hi': 400, 'optimize': True})
    specs.append({'name': 'tcp', 'lo': 8, 'hi': 16, 'optimize': True})
    return specs


NTCP = {'quick': 96, 'thorough': 2400}


def run_shard(spec, tier, seed):
    res = Result()
    if spec.get('debug_logging'):
        res.count('sim.logging-at-debug-level')
    if spec['name'] == 'tcp':
        from . import c09tcp
        for i in range(spec['lo'], spec['hi']):
            c09tcp.run_case(res, {'tcp': True, 'index': i, 'seed': seed})
        return res
    if spec['name'] == 'sweep':
        for served, ts in spec['configs']:
            run_case(res, {'served': served, 'ts': ts, 'contexts': [], 'ids': [], 'probe': True})
            for c in range(len(CONTEXT_CHOICES)):
                run_case(res, {'served': served, 'ts': ts, 'contexts': [c], 'ids': [1], 'probe': True,
                               'scu': c % 4})
            for c in range(0, NDISTINCT, 7):
                reuse_case(res, {'served': served, 'ts': ts, 'contexts': [c, (c * 3 + 1) % NDISTINCT],
                                 'ids': [1, 3], 'reuse': True})
                reuse_case(res, {'served': served, 'ts': ts, 'contexts': [c, (c * 3 + 1) % NDISTINCT],
                                 'ids': [1, 3], 'reuse': True, 'retune': True})
            # every optional user item with a stride of the single-context requests (all of them
            # in the thorough tier)
            step = 16 if spec['n'] < 2 else 1
            for e in range(len(EXTRAS)):
                for c in range((e + served + ts) % step, NDISTINCT, step):
                    run_case(res, {'served': served, 'ts': ts, 'contexts': [c], 'ids': [1], 'probe': True,
                                   'extra': [e]})
            if spec['n'] >= 2:
                k = 0
                for c1 in range(NDISTINCT):
                    for c2 in range(NDISTINCT):
                        k += 1
                        run_case(res, {'served': served, 'ts': ts, 'contexts': [c1, c2],
                                       'ids': [5, 3] if k % 2 else [1, 255], 'probe': k % 9 == 0})
            res.notes['exhaustive_up_to_n_contexts'] = ['n<=%d' % spec['n']]
    else:
        for i in range(spec['lo'], spec['hi']):
            r = rng(seed, 'c09', i)
            n = r.choice([2, 3, 4, 4, 6, 10])
            ids = r.sample(range(1, 256, 2), n)
            run_case(res, {'served': r.randrange(8), 'ts': r.randrange(16),
                           'contexts': [r.randrange(len(CONTEXT_CHOICES)) for _ in range(n)], 'ids': ids,
                           'probe': r.random() < 0.5, 'titles': [r.randrange(1, 17), r.randrange(1, 17)],
                           'extra': r.sample(range(len(EXTRAS)), r.choice([0, 0, 1, 2, 4])),
                           'scu': r.choice([0, 0, 1, 2, 3])})
    return res


def replay(case):
    res = Result()
    if case.get('reuse'):
        reuse_case(res, case)
        return res
    if case.get('tcp'):
        from . import c09tcp
        c09tcp.run_case(res, case)
        return res
    run_case(res, case)
    return res


def _scu_service(classes):
    def scu(asce, ctx, *a):
        return None
    scu.sop_classes = list(classes)
    return scu


class Recorder(object):
    """A minimal SCP callable written to the documented service interface."""

    def __init__(self, sop_classes):
        self.sop_classes = list(sop_classes)
        self.calls = []

    def __call__(self, asce, ctx, msg):
        self.calls.append((ctx.id, str(ctx.sop_class), str(ctx.supported_ts), str(msg.sop_class_uid)))


_rq_cache = {}


def request_object(contexts, ids, titles, extra=()):
    extra = sorted(set(extra))
    if sum(1 for e in extra if EXTRAS[e]['type'] == 0x58) > 1:
        extra = [e for e in extra if EXTRAS[e]['type'] != 0x58] + [e for e in extra if EXTRAS[e]['type'] == 0x58][:1]
    key = (tuple(contexts), tuple(ids), tuple(titles or ()), tuple(extra))
    tree = _rq_cache.get(key)
    if tree is None:
        ctxs = []
        for cid, c in zip(ids, contexts):
            a, tl = CONTEXT_CHOICES[c]
            abstract = STRANGER if a == 3 else CLASSES[a]
            ctxs.append((cid, abstract, tuple(TSS[t] for t in TS_LISTS[tl])))
        called = b'ACCEPTOR-TITLE16'[:titles[0]] if titles else b'ANY-SCP'
        calling = b'REQUESTOR-TITLE6'[:titles[1]] if titles else b'ECHOSCU'
        tree = F.assoc_rq_tree(contexts=ctxs, called=called, calling=calling,
                               extra_subs=[EXTRAS[e] for e in extra])
        if len(_rq_cache) < 50000:
            _rq_cache[key] = tree
    from pynetdicom2 import pdu as P
    return tree, P.AAssociateRqPDU.decode(R.build_pdu(tree))


def reuse_case(res, case):
    """One entity answers the same request twice; in between the application adds the services for
    the classes it did not serve before.  Each answer follows the configuration of its moment."""
    from pynetdicom2 import applicationentity, asceprovider, pdu as P
    served = [CLASSES[i] for i in range(3) if case['served'] >> i & 1]
    later = [c for c in CLASSES if c not in served]
    supported = [TSS[i] for i in range(4) if case['ts'] >> i & 1]
    tree, rq = request_object(case['contexts'], case['ids'], None)
    proposed = [(i['id'], i['abstract']['name'], [t['name'] for t in i['ts']])
                for i in tree['items'] if i['type'] == 0x20]
    res.evaluations += 1
    res.distinct.add('reuse|%d|%d|%s' % (case['served'], case['ts'], case['contexts']))
    res.count('oracle.entity-reconfigured')
    phase_supported = []
    with stubdul.stubbed() as Stub:
        ae = applicationentity.AE('ACCEPTOR', 0, supported_ts=[t.decode() for t in supported],
                                  bind_and_activate=False)
        try:
            replies = []
            retune = bool(case.get('retune'))
            for phase, classes in enumerate((served, later)):
                if retune:
                    # ... or changes the transfer syntaxes it supports (complement set)
                    if phase == 0:
                        ae.add_scp(Recorder([c.decode() for c in served + later]))
                    else:
                        supported = [t for t in TSS if t not in supported] or supported
                        ae.supported_ts = frozenset(t.decode() for t in supported)
                elif classes:
                    ae.add_scp(Recorder([c.decode() for c in classes]))
                phase_supported.append(list(supported))
                Stub.preload = [P.AAssociateRqPDU.decode(R.build_pdu(tree)), P.AReleaseRqPDU()]
                try:
                    asceprovider.AssociationAcceptor(stubdul.FakeRequest(), ('peer', 1), ae, max_pdu_length=16384)
                except Exception as exc:
                    res.violation('acceptor-raises', 'C09.accept', 'reuse phase %d: %s: %s' % (
                        phase, type(exc).__name__, exc), case)
                    return
                stub = Stub.instances[-1]
                acs = [p for p in stub.sent_pdus() if getattr(p, 'pdu_type', None) == 2]
                replies.append(R.parse_pdu(acs[0].encode()) if len(acs) == 1 else None)
        finally:
            ae.server_close()
    served_by_phase = (served + later, served + later) if case.get('retune') else (served, served + later)
    for phase, (ac, now_served) in enumerate(zip(replies, served_by_phase)):
        supported = phase_supported[phase]
        if ac is None:
            res.violation('no-single-associate-ac', 'C09.reply', 'reuse phase %d: no single A-ASSOCIATE-AC' % phase,
                          case)
            continue
        answers = {i['id']: i for i in ac['items'] if i['type'] == 0x21}
        for cid, abstract, tss in proposed:
            common = [t for t in tss if t in supported]
            should = abstract in now_served and bool(common)
            got = cid in answers and answers[cid]['result'] == 0
            if should != got:
                res.violation('answer-follows-an-earlier-configuration' if phase else (
                    'rejected-acceptable-context' if should else 'accepted-unserved-abstract-syntax'),
                    'C09.accept-iff', 'entity serving %s, then also %s: association %d, context %d (%s, %s): '
                    'accepted=%s, should be %s' % (
                        [c.decode()[-8:] for c in served], [c.decode()[-8:] for c in later], phase + 1, cid,
                        abstract.decode()[-8:], [t.decode()[-6:] for t in tss], got, should), case)


def run_case(res, case):
    from pynetdicom2 import applicationentity, asceprovider, dimsemessages, exceptions, pdu as P
    served = [CLASSES[i] for i in range(3) if case['served'] >> i & 1]
    supported = [TSS[i] for i in range(4) if case['ts'] >> i & 1]
    contexts, ids = case['contexts'], case['ids']
    res.evaluations += 1
    if contexts:
        res.distinct.add('%d|%d|%s|%s|%s' % (case['served'], case['ts'], contexts, ids, case.get('extra', '')))
    tree, rq = request_object(contexts, ids, case.get('titles'), case.get('extra', ()))
    if case.get('scu'):
        res.count('oracle.entity-also-scu')
    if case.get('extra'):
        res.count('oracle.extra-user-items')
    if any(c >= NDISTINCT for c in contexts):
        res.count('oracle.duplicate-transfer-syntax-entries')
    proposed = []          # (id, abstract, [ts...])
    for item in tree['items']:
        if item['type'] == 0x20:
            proposed.append((item['id'], item['abstract']['name'], [t['name'] for t in item['ts']]))
    want = {}
    for cid, abstract, tss in proposed:
        common = [t for t in tss if t in supported]
        want[cid] = (abstract in served and bool(common), common)
    where = 'served=%s supported=%s proposed=%s' % (
        [s.decode() for s in served], [t.decode()[-6:] for t in supported],
        [(c, a.decode()[-8:], [t.decode()[-6:] for t in ts]) for c, a, ts in proposed])
    if case.get('extra'):
        where += ' user-items=%s' % [
            ('%02X' % EXTRAS[e]['type'], EXTRAS[e].get('uid', b'').decode()[-8:], EXTRAS[e].get('scu'),
             EXTRAS[e].get('scp')) for e in case['extra']]

    def associate(script):
        service = Recorder([s.decode() for s in served])
        with stubdul.stubbed() as Stub:
            ae = applicationentity.AE('ACCEPTOR', 0, supported_ts=[t.decode() for t in supported],
                                      bind_and_activate=False)
            try:
                # the entity may use the same classes as SCU as well (registered before or after)
                scu = case.get('scu', 0)
                if scu == 1 and served:
                    ae.add_scu(_scu_service([s.decode() for s in served]))
                ae.add_scp(service)
                if scu == 2 and served:
                    ae.add_scu(_scu_service([s.decode() for s in served[:1]]))
                if scu == 3:
                    # ... and classes it uses as SCU only: those it does not serve
                    ae.add_scu(_scu_service([c.decode() for c in CLASSES + [STRANGER] if c not in served]))
                Stub.preload = [rq] + script
                error = None
                try:
                    asce = asceprovider.AssociationAcceptor(stubdul.FakeRequest(), ('peer', 1), ae,
                                                            max_pdu_length=16384)
                except Exception as exc:      # e.g. ClassNotSupportedError on a refused context
                    error = exc
                    asce = None
                stub = Stub.instances[0] if Stub.instances else None
            finally:
                ae.server_close()
        return service, stub, asce, error

    def echo_on(cid, abstract):
        msg = dimsemessages.CEchoRQMessage()
        msg.message_id = 7
        msg.sop_class_uid = abstract.decode()
        return (msg, cid)

    accepted_ids = [cid for cid, _, _ in proposed if want[cid][0]]
    script = [echo_on(cid, a) for cid, a, _ in proposed if want[cid][0]] if case['probe'] else []
    service, stub, asce, error = associate(script + [P.AReleaseRqPDU()])
    res.count('oracle.reply-structure')
    if error is not None or stub is None:
        res.violation('acceptor-raises', 'C09.accept', '%s: %s: %s' % (where, type(error).__name__, error),
                      case)
        return
    acs = [p for p in stub.sent_pdus() if getattr(p, 'pdu_type', None) == 2]
    if len(acs) != 1:
        res.violation('no-single-associate-ac', 'C09.reply', '%s: %d A-ASSOCIATE-AC PDUs sent (%r)' % (
            where, len(acs), [type(p).__name__ for p in stub.sent_pdus()]), case)
        return
    try:
        ac = R.parse_pdu(acs[0].encode())
    except Exception as exc:
        res.violation('associate-ac-malformed', 'C09.reply', '%s: %s' % (where, exc), case)
        return
    res.sample({'case': case, 'request': where, 'reply': [
        (i['id'], i['result'], i['ts']['name'].decode()) for i in ac['items'] if i['type'] == 0x21]},
        limit=5)
    answers = [i for i in ac['items'] if i['type'] == 0x21]
    if [a['id'] for a in answers] != [p[0] for p in proposed]:
        res.violation('contexts-not-answered-once-in-order', 'C09.reply',
                      '%s: reply answers ids %r' % (where, [a['id'] for a in answers]), case)
        return
    kinds = [i['type'] for i in ac['items']]
    if kinds[:1] != [0x10] or kinds[-1:] != [0x50] or kinds.count(0x10) != 1 or kinds.count(0x50) != 1:
        res.violation('reply-item-structure', 'C09.reply', '%s: item types %r' % (where, kinds), case)
    res.count('oracle.titles-repeated')
    sent_rq = R.parse_pdu(R.build_pdu(tree))
    # "shall contain the same value as received" (PS3.8 9.3.3): the 16-byte fields, padding included
    if bytes(ac['called']) != bytes(sent_rq['called']) or bytes(ac['calling']) != bytes(sent_rq['calling']):
        res.violation('titles-not-repeated', 'C09.reply', '%s: reply titles %r/%r, request %r/%r' % (
            where, ac['called'], ac['calling'], tree['called'], tree['calling']), case)
    app = [i for i in ac['items'] if i['type'] == 0x10]
    if not app or app[0]['name'] != F.APP_CONTEXT:
        res.violation('application-context-not-repeated', 'C09.reply', '%s: %r' % (where, app), case)
    res.count('oracle.accept-iff')
    for a, (cid, abstract, tss) in zip(answers, proposed):
        should, common = want[cid]
        got = a['result'] == 0
        if got and not should:
            key = 'accepted-unserved-abstract-syntax' if abstract not in served else \
                'accepted-without-common-transfer-syntax'
            res.violation(key, 'C09.accept-iff', '%s: context %d accepted (ts %r)' % (
                where, cid, a['ts']['name']), case)
        elif should and not got:
            res.violation('rejected-acceptable-context', 'C09.accept-iff',
                          '%s: context %d rejected with result %d' % (where, cid, a['result']), case)
        elif got and a['ts']['name'] not in common:
            key = 'transfer-syntax-not-proposed' if a['ts']['name'] not in tss else \
                'transfer-syntax-not-supported'
            res.violation(key, 'C09.accept-iff', '%s: context %d answered with transfer syntax %r' % (
                where, cid, a['ts']['name']), case)
    reported = {a['id']: a['ts']['name'].decode() for a in answers if a['result'] == 0}
    # the contexts the acceptor will serve = those it reported accepted
    table = getattr(asce, 'accepted_contexts', None)
    if table is not None:
        mine = {cid: str(ctx.supported_ts) for cid, ctx in table.items()}
        if mine != reported:
            res.violation('served-contexts-differ-from-reported', 'C09.routing',
                          '%s: accepted_contexts %r, reply reports %r' % (where, mine, reported), case)
    if not case['probe']:
        return
    res.count('oracle.routing')
    called = {c[0]: c for c in service.calls}
    for cid, abstract, tss in proposed:
        if cid in reported:
            if cid not in called:
                res.violation('accepted-context-not-served', 'C09.routing',
                              '%s: request on accepted context %d reached no service (calls %r)' % (
                                  where, cid, service.calls), case)
            elif called[cid][2] != reported[cid] or called[cid][1] != abstract.decode():
                res.violation('served-with-other-parameters', 'C09.routing',
                              '%s: context %d served as %r, reported ts %s' % (
                                  where, cid, called[cid], reported[cid]), case)
    # a request on every context reported as rejected must reach no service
    for cid, abstract, tss in proposed:
        if cid in reported:
            continue
        service2, stub2, asce2, error2 = associate([echo_on(cid, abstract), P.AReleaseRqPDU()])
        if service2.calls:
            res.violation('rejected-context-served', 'C09.routing',
                          '%s: request on rejected context %d was dispatched: %r' % (
                              where, cid, service2.calls), case)
