"""C06 - DIMSE fragmentation: size bound, fragment flags, byte-exact content.

The real ``DIMSEMessage.encode`` and ``Association.send`` (stub provider) are
run for every message class over data-set sizes around every multiple of the
fragment size, for every maximum PDU length in a range (exhaustively) plus the
2^k boundaries up to 2^32-1, with the data set given as bytes, as an in-memory
stream and as a real file (opened at offset 0 and at an inner offset).  An
independent checker reads the PDU objects' bytes with the reference parser.
"""
from __future__ import annotations

import io
import os
import tempfile

from . import msgs, refcodec as R, stubdul
from .common import Result, rng

LEVEL = 'exploration'
ENGINE = 'stubdul+refcodec'
TECHNIQUE = ('runtime oracle over the P-DATA-TF sequence produced by the real encode()/Association.send, parsed by the '
             'reference codec: size bound, fragment order/flags, byte conservation, bytes-vs-file equivalence')
LEVEL_TEXT = ('maximum PDU lengths swept exhaustively over a range and over all 2^k boundaries, data-set lengths at '
              'every +-2 neighbourhood of fragment-size multiples, all 23 classes, four data-set sources; exhaustive '
              'over the stated grid, a sample of message field values')
LEVEL_NOTE = 'trusts vf/refcodec.py (P-DATA-TF layout, message control header); command bytes are checked by C08'
RULE = ('case = (message class, max PDU length, data length, context id, source kind); distinct = same tuple; '
        'non-trivial = more than one fragment is produced or a data set is present')
ASSUMPTIONS = ['maximum PDU length bounds the P-DATA-TF variable field (PS3.8 D.1), so 7 carries one payload byte']
REQUIRED = ['oracle.size-bound', 'oracle.stream-discipline', 'oracle.byte-conservation',
            'oracle.bytes-vs-file', 'oracle.via-association-send', 'oracle.short-read-source']

RANGE = {'quick': (7, 64), 'thorough': (7, 600)}
SOURCES = ['bytes', 'bytesio', 'file0', 'file-offset']


def exhaustive(tier):
    return False


def boundaries():
    out = set()
    for k in range(3, 33):
        for d in (-1, 0, 1):
            v = 2 ** k + d
            if 7 <= v <= 2 ** 32 - 1:
                out.add(v)
    return sorted(out)


def plan(tier, seed):
    lo, hi = RANGE[tier]
    maxes = list(range(lo, hi + 1)) + [b for b in boundaries() if b > hi]
    specs = [{'maxes': maxes[i::16]} for i in range(16)]
    # the real provider thread writing to a real socket while the application goes on (vf/c06wire.py)
    for k in range(4 if tier == 'quick' else 24):
        specs.append({'wire': 'release', 'round': k})
    for k in range(3 if tier == 'quick' else 24):
        specs.append({'wire': 'threads', 'round': k})
    return specs


def run_shard(spec, tier, seed):
    res = Result()
    if spec.get('wire'):
        from . import c06wire
        (c06wire.release_case if spec['wire'] == 'release' else c06wire.threads_case)(
            res, {'wire': spec['wire'], 'round': spec['round'], 'seed': seed})
        return res
    tmpdir = tempfile.mkdtemp(prefix='vf-c06-')
    try:
        for mx in spec['maxes']:
            r = rng(seed, 'c06', mx)
            chunk = mx - 6
            lengths = {1, 2, 3}
            for k in (1, 2, 3, 4):
                for d in (-2, -1, 0, 1, 2):
                    n = k * chunk + d
                    if 0 < n <= 5000:
                        lengths.add(n)
            if mx > 5000:
                lengths |= {100, 4999}
            lengths = sorted(lengths)
            # every class at least once per max; data lengths spread over classes
            for ci, name in enumerate(msgs.CLASS_NAMES):
                picks = [lengths[(ci + j * 23) % len(lengths)] for j in range(
                    2 if tier == 'quick' else 4)]
                for n in [0] + picks:
                    src = SOURCES[(ci + n) % 4]
                    run_case(res, {'cls': name, 'max': mx, 'len': n,
                                   'ctx': r.choice([1, 3, 5, 7, 127, 253, 255, r.randrange(1, 256)]),
                                   'source': src, 'seed': seed}, tmpdir)
            # all lengths with one class, all four sources (bytes-vs-file equivalence)
            for n in lengths:
                for src in SOURCES + ['shortreads', 'bytesio-offset', 'gzip']:
                    run_case(res, {'cls': 'CStoreRQMessage', 'max': mx, 'len': n, 'ctx': 1,
                                   'source': src, 'seed': seed}, tmpdir)
    finally:
        import shutil
        shutil.rmtree(tmpdir, ignore_errors=True)
    return res


def replay(case):
    res = Result()
    if case.get('wire'):
        from . import c06wire
        (c06wire.release_case if case['wire'] == 'release' else c06wire.threads_case)(res, case)
        return res
    tmpdir = tempfile.mkdtemp(prefix='vf-c06-')
    try:
        run_case(res, case, tmpdir)
    finally:
        import shutil
        shutil.rmtree(tmpdir, ignore_errors=True)
    return res


def data_for(case):
    r = rng(case['seed'], 'c06-data', case['max'], case['len'])
    return bytes(r.getrandbits(8) for _ in range(case['len']))


def make_source(kind, data, tmpdir):
    if kind == 'bytes':
        return data
    if kind == 'bytesio':
        return io.BytesIO(data)
    if kind == 'bytesio-offset':
        # an in-memory stream positioned behind a header: transmission starts at the position
        fp = io.BytesIO(b'\0' * 128 + b'DICM' + b'meta-header-bytes' + data)
        fp.seek(128 + 4 + 17)
        return fp
    if kind == 'gzip':
        # a seekable file object whose descriptor belongs to another (compressed) file than the
        # stream it delivers
        import gzip
        path = os.path.join(tmpdir, 'ds-%d.bin.gz' % len(data))
        with gzip.open(path, 'wb') as f:
            f.write(data)
        return gzip.open(path, 'rb')
    if kind == 'shortreads':
        # a stream whose read(n) may return less than n before the end of the data
        from .c10 import ShortReads
        return ShortReads(data, rng(len(data), 'c06-short'))
    path = os.path.join(tmpdir, 'ds-%d.bin' % len(data))
    prefix = b'' if kind == 'file0' else b'\0' * 128 + b'DICM' + b'meta-header-bytes'
    with open(path, 'wb') as f:
        f.write(prefix + data)
    fp = open(path, 'rb')
    fp.seek(len(prefix))
    return fp


def run_case(res, case, tmpdir):
    from pynetdicom2 import applicationentity, asceprovider
    name, mx, n, ctx = case['cls'], case['max'], case['len'], case['ctx']
    r = rng(case['seed'], 'c06-msg', name, mx, n)
    data = data_for(case) if n else None
    res.evaluations += 1
    msg, values = msgs.make(name, r, unset_prob=0.3)
    if data is not None:
        msg.data_set = make_source(case['source'], data, tmpdir)
    where = '%s max=%d data=%d ctx=%d src=%s' % (name, mx, n, ctx, case['source'])
    via_send = (n + mx) % 2 == 0
    try:
        if via_send:
            with stubdul.stubbed():
                assoc = asceprovider.Association(applicationentity.ClientAE('C06'), None, mx)
                assoc.send(msg, ctx)
                pdus = assoc.dul.sent_messages()[-1]
            res.count('oracle.via-association-send')
        else:
            msg.set_length()
            pdus = list(msg.encode(ctx, mx))
    except Exception as exc:
        res.violation('encode-raises', 'C06.encode', '%s: %s: %s' % (where, type(exc).__name__, exc),
                      case)
        return
    wire = stubdul.message_wire(pdus)
    if len(pdus) > 1 or n:
        res.distinct.add('%s|%d|%d|%d|%s' % (name, mx, n, ctx, case['source']))
    res.sample({'case': case, 'pdus': len(pdus), 'pdu_lengths': wire['lengths'][:8],
                'command_fragments': len(wire['checker'].command),
                'data_fragments': len(wire['checker'].data)}, limit=5)
    if wire['problems']:
        res.violation('malformed-pdata', 'C06.wire', '%s: %s' % (where, wire['problems'][0]), case)
        return
    # size bound, on the object and on the wire
    res.count('oracle.size-bound')
    for k, (p, length) in enumerate(zip(pdus, wire['lengths'])):
        if length > mx:
            res.violation('pdu-longer-than-maximum', 'C06.size-bound',
                          '%s: P-DATA-TF #%d has length %d > %d' % (where, k, length, mx), case)
            break
        if getattr(p, 'pdu_length', length) != length:
            res.violation('pdu-length-attribute-wrong', 'C06.size-bound',
                          '%s: P-DATA-TF #%d pdu_length=%r, %d on the wire' % (
                              where, k, p.pdu_length, length), case)
            break
    # stream discipline
    res.count('oracle.stream-discipline')
    chk = wire['checker']
    problems = chk.finish(expect_data=bool(n))
    if chk.ctx != ctx and chk.n:
        problems.append('fragments carried on context %r, message sent on %r' % (chk.ctx, ctx))
    # the very last fragment of the whole stream must be a "last" one and nothing follows it
    if wire['trees']:
        last = wire['trees'][-1]['pdvs'][-1]['data'] if wire['trees'][-1]['pdvs'] else b''
        if last and not last[0] & 2:
            problems.append('final fragment is not flagged last')
    for problem in problems:
        key = 'stream:' + problem.split(' ')[0] + '-' + problem.split(' ')[1]
        if 'empty' in problem:
            key = 'stream:empty-fragment'
        elif 'context' in problem:
            key = 'stream:wrong-context'
        elif 'control header' in problem:
            key = 'stream:bad-control-header'
        elif 'after the last' in problem:
            key = 'stream:fragment-after-last'
        elif 'before the last command' in problem or 'after a data' in problem:
            key = 'stream:command-data-order'
        elif problem.startswith('no last') or 'not flagged last' in problem:
            key = 'stream:no-last-fragment'
        elif 'none expected' in problem:
            key = 'stream:unexpected-data'
        res.violation(key, 'C06.stream', '%s: %s' % (where, problem), case)
    # byte conservation
    res.count('oracle.byte-conservation')
    if (wire['data'] or b'') != (data or b''):
        res.violation('data-bytes-differ', 'C06.conservation',
                      '%s: concatenated data fragments (%d bytes) != data set supplied (%d bytes)' % (
                          where, len(wire['data']), n), case)
    try:
        cs = R.parse_command_set(wire['command'])
    except R.RefError as exc:
        res.violation('command-bytes-unreadable', 'C06.conservation', '%s: %s' % (where, exc), case)
        return
    if cs.get(R.TAG_COMMAND_FIELD) != msgs.STANDARD[name]:
        res.violation('command-bytes-differ', 'C06.conservation',
                      '%s: reassembled command set has command field %r' % (
                          where, cs.get(R.TAG_COMMAND_FIELD)), case)
    for tag, want in msgs.expected_values(values).items():
        if tag not in cs or not msgs.compare_field(tag, want, cs[tag]):
            res.violation('command-bytes-differ', 'C06.conservation',
                          '%s: element %04X,%04X reassembles to %r, message has %r' % (
                              where, tag[0], tag[1], cs.get(tag), want), case)
            break
    # bytes vs file: same stream whatever the source
    if n and case['source'] == 'shortreads':
        res.count('oracle.short-read-source')      # fragment boundaries may differ, nothing else
    elif n and case['source'] != 'bytes':
        res.count('oracle.bytes-vs-file')
        msg2, _ = msgs.make(name, rng(case['seed'], 'c06-msg', name, mx, n), unset_prob=0.3)
        msg2.data_set = data
        msg2.set_length()
        try:
            raws2 = [p.encode() for p in msg2.encode(ctx, mx)]
        except Exception as exc:
            raws2 = None
        if raws2 is not None and raws2 != wire['raws']:
            res.violation('bytes-vs-file-differ', 'C06.bytes-vs-file',
                          '%s: %d PDUs from the %s source, %d from bytes (first difference at PDU %d)' % (
                              where, len(wire['raws']), case['source'], len(raws2),
                              next((k for k, (a, b) in enumerate(zip(wire['raws'], raws2)) if a != b),
                                   min(len(raws2), len(wire['raws'])))), case)
