"""Runtime-monitoring machinery for blanebf/pynetdicom2 (properties C01-C20).

Everything in this package observes executions of the *real* library code
imported from ``$VERIF_REPO`` (default ``/repo``); nothing here re-implements
library behaviour except the independent reference oracles (``refcodec``,
``refmodel``) that are written from the DICOM standard.
"""
