"""C15 - a storage provider that is busy for a while in the middle of a transfer.

The library (storage user) sends one instance of several MiB - more than the
socket buffers hold - to a reference peer that reads the beginning, does not
read at all for `pause` seconds (longer than any connection or set-up time-out
the library uses anywhere) and then reads on and answers Success.  Sending has
no deadline of its own: the data set arrives complete and the user gets the
status the peer returned.  (The mirror image - the library serving a slow
*reader* - is C20's slow-reader round.)
"""
from __future__ import annotations

import threading
import time

from . import refcodec as R, svc, tcpnet
from .common import rng


def run_round(res, case, attempt=0):
    from pynetdicom2 import applicationentity, dsutils, sopclass
    import pydicom
    k, seed = case['round'], case['seed']
    r = rng(seed, 'c15-stall', k)
    if not attempt:
        res.evaluations += 1
    pause = 11.0
    size = 3 * 1024 * 1024 + r.randrange(1000)
    pause_after = [1, 10, 3][k % 3]              # PDUs read before the peer gets busy
    max_len = [16384, 65536, 0][k % 3]
    where = 'stalled provider round %d: %d bytes, peer stops reading for %.0f s after %d PDUs' % (
        k, size, pause, pause_after)
    ds = pydicom.Dataset()
    ds.SOPClassUID = svc.CT
    ds.SOPInstanceUID = '1.2.826.56.%d' % k
    ds.PatientName = 'STALL^%d' % k
    ds.PixelData = bytes(r.getrandbits(8) for _ in range(1024)) * (size // 1024)
    ds['PixelData'].VR = 'OB'
    want = dsutils.encode(ds, True, True)
    seen = {}

    def provider(peer):
        import socket as _socket
        peer.sock.setsockopt(_socket.SOL_SOCKET, _socket.SO_RCVBUF, 65536)
        peer.accept(max_len=max_len)
        got = bytearray()
        command = bytearray()
        pdus = 0
        done = False
        ctx = None
        while not done:
            pdu = peer.recv_pdu()
            if pdu['type'] != 4:
                seen['error'] = 'PDU type %r in the middle of the transfer' % pdu['type']
                return
            pdus += 1
            for pdv in pdu['pdvs']:
                ctx = pdv['ctx']
                header = pdv['data'][0]
                (command if header & 1 else got).extend(pdv['data'][1:])
                if not header & 1 and header & 2:
                    done = True
            if pdus == pause_after:
                time.sleep(pause)
        cmd = R.parse_command_set(bytes(command))
        seen['data'] = bytes(got)
        peer.send_dimse(ctx, {R.TAG_AFFECTED_SOP_CLASS: svc.CT, R.TAG_COMMAND_FIELD: 0x8001,
                              R.TAG_MESSAGE_ID_RSP: cmd.get(R.TAG_MESSAGE_ID), R.TAG_STATUS: 0xB000,
                              R.TAG_AFFECTED_SOP_INSTANCE: cmd.get(R.TAG_AFFECTED_SOP_INSTANCE)})
        nxt = peer.recv_pdu()
        if nxt['type'] == 5:
            peer.send_pdu({'type': 6})

    net = tcpnet.Net(seed=seed * 53 + k, sndbuf=65536)       # a host with small socket send buffers
    error = None
    status = None
    with tcpnet.instrument(net):
        srv = tcpnet.PeerServer(provider, timeout=40.0)
        try:
            client = applicationentity.ClientAE('STALLSCU', supported_ts=['1.2.840.10008.1.2'],
                                                max_pdu_length=65536)
            client.timeout = 30
            client.add_scu(sopclass.storage_scu, [svc.CT])
            try:
                with client.request_association({'aet': 'BUSY', 'address': '127.0.0.1',
                                                 'port': srv.port}) as assoc:
                    status = int(assoc.get_scu(svc.CT)(ds, 7))
            except Exception as exc:
                error = exc
        finally:
            srv.close()
    tcpnet.wait_quiet(0, 3.0)
    if (error is None and (srv.errors or seen.get('error'))) or tcpnet.is_timeout(error):
        # the reference peer's own failure, or the 30 s wait for the response on a loaded machine
        res.count('flaky-timeouts')
        if attempt < 1:
            return run_round(res, case, attempt + 1)
        res.inconclusive.append('%s: reference peer failed: %r %r' % (where, srv.errors[:1], seen.get('error')))
        return
    res.count('oracle.transfer-survives-a-busy-provider')
    res.distinct.add('stall|%d|%d' % (pause_after, max_len))
    res.sample({'case': case, 'bytes_sent': len(want), 'bytes_received': len(seen.get('data', b'')),
                'status': status, 'error': '%s: %s' % (type(error).__name__, error) if error else None}, limit=2)
    if error is not None or status != 0xB000:
        res.violation('store-fails-when-provider-is-busy', 'C15.status',
                      '%s: the user got status %r / %s' % (where, status, '%s: %s' % (
                          type(error).__name__, error) if error else None), case)
    elif seen.get('data') != want:
        res.violation('content-altered', 'C15.content', '%s: %d bytes arrived, %d were sent' % (
            where, len(seen.get('data', b'')), len(want)), case)
