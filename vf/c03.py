"""C03 - PDU framing is independent of how TCP segments the byte stream.

Every conversation of the corpus is replayed on the real provider loop under
the simulated transport with the peer's byte stream cut into segments in many
ways; what the provider makes of it (recognised PDU events, indications with
their full content, bytes written, final state) must equal the baseline
delivery of exactly one PDU per segment.  A conservation monitor checks at
every quiescent point that the number of PDUs recognised so far equals the
number of complete PDUs contained in the bytes delivered so far.
"""
from __future__ import annotations

import hashlib
import itertools

from . import convo, refcodec, simnet
from .common import Result, rng

LEVEL = 'exploration'
ENGINE = 'simnet'
TECHNIQUE = ('differential monitor on the real provider loop under a simulated transport: every segmentation of '
             'the peer stream vs one-PDU-per-segment baseline, plus a PDU-count conservation monitor')
LEVEL_TEXT = ('every single cut offset of every conversation (and every pair of offsets on the thorough tier), '
              'dribble, all-at-once and random k-cuts, crossed with the recv size and with data pending at '
              'start, are executed on the real loop; exhaustive over single/pair cuts of a finite corpus, a '
              'sample of all partitions')
LEVEL_NOTE = 'trusts the simulated socket/select to behave like a blocking TCP socket under select; corpus is finite'
RULE = ('case = (conversation, partition of each peer burst into segments, recv size in {7,16,65536}, first '
        'segment pending at start or not); distinct = (conversation, cut set, recv size, pending); non-trivial '
        '= at least one cut that is not a PDU boundary or several PDUs in one segment')
ASSUMPTIONS = ['a peer never sends beyond what causality allows (bursts are separated by local-user steps)']
REQUIRED = ['oracle.differential', 'monitor.pdu-count-conservation', 'oracle.straddled-local-step', 'oracle.long-stream',
            'oracle.simultaneous-local-step']

RECV_SIZES = [65536, 16, 7]
PDU_EVENTS = {2, 3, 5, 9, 11, 12, 15, 18}     # 0-based event numbers raised for received PDUs


def exhaustive(tier):
    return False


def describe_msg(item):
    """Deep description of an indication (content, not just kind)."""
    if isinstance(item, tuple):
        msg, pc_id = item[0], item[1]
        ds = getattr(msg, 'data_set', None)
        if ds is not None and not isinstance(ds, (bytes, bytearray)):
            try:
                pos = ds.tell()
                blob = ds.read()
                ds.seek(pos)
            except Exception:
                blob = repr(ds).encode()
        else:
            blob = ds
        cs = getattr(msg, 'command_set', None)
        elems = sorted((int(e.tag), repr(e.value)) for e in cs) if cs is not None else None
        return ('DIMSE', type(msg).__name__, pc_id, elems,
                hashlib.sha1(blob).hexdigest() if blob else None)
    return simnet.describe_indication(item) + (
        getattr(item, 'called_ae_title', None), getattr(item, 'calling_ae_title', None),
        len(getattr(item, 'variable_items', []) or []))


def observe(role, steps, cuts, mode, recv_size, pending, eof=False):
    if eof:
        # the peer's close arrives in the same segment as the last bytes of the burst it follows
        steps = convo.with_final_close(steps)
    script = convo.build_script(role, steps, cuts, mode, eof_merge=eof)
    sim = simnet.Sim(role, script, max_pdu_length=recv_size, first_pending=pending)
    # conservation monitor: evaluated at every snapshot through a light hook on Sim.snapshot
    delivered = {'n': 0, 'bad': None, 'checks': 0}
    stream = bytearray()
    orig_snapshot = sim.snapshot

    def snapshot():
        out = orig_snapshot()
        sock = sim.sockets[0] if sim.sockets else None
        if sock is not None and not sock.closed and delivered['bad'] is None:
            got = sum(sock.recv_sizes)
            total = bytes(stream_all[:got]) if got <= len(stream_all) else None
            if total is not None:
                want = len(refcodec.split_stream(total)[0])
                seen = sum(1 for c in sim.cells if c[0] in PDU_EVENTS)
                delivered['checks'] += 1
                # events are raised one per loop iteration: at a quiescent point all complete
                # PDUs handed over by recv() must have been recognised, none twice
                if not sock.inbound and seen != want:
                    delivered['bad'] = 'after %d bytes received: %d PDUs recognised, %d complete ' \
                                       'PDUs in those bytes' % (got, seen, want)
        return out
    sim.snapshot = snapshot
    stream_all = b''.join(b for _, b, _ in convo.peer_stream(steps))
    sim.run()
    obs = {
        'events': [c[0] for c in sim.cells if c[0] in PDU_EVENTS],
        'indications': [describe_msg(i) for i in sim.indication_objs],
        'wire': b''.join(sim.wire_raw),
        'state': sim.state(), 'closed': sim.all_closed(), 'timer': sim.timer_running,
        'outcome': sim.outcome, 'error': sim.error,
    }
    return obs, delivered


def cut_sets(steps, tier, seed, name, pairs=True):
    """Yield (label, cuts dict or None, mode)."""
    streams = convo.peer_stream(steps)
    yield 'whole', None, 'whole'
    yield 'bytes', None, 'bytes'
    # every single cut, alone and on top of the PDU boundaries
    for idx, blob, bounds in streams:
        for x in range(1, len(blob)):
            yield 'cut1:%d:%d' % (idx, x), {idx: [x]}, 'pdu'
            if x not in bounds:
                yield 'cut1+pdu:%d:%d' % (idx, x), {idx: sorted(set(bounds + [x]))}, 'pdu'
    total = sum(len(b) for _, b, _ in streams)
    pairs_ok = pairs and (tier == 'thorough' or total <= 210)
    if pairs_ok:
        for idx, blob, bounds in streams:
            for x, y in itertools.combinations(range(1, len(blob)), 2):
                yield 'cut2:%d:%d:%d' % (idx, x, y), {idx: [x, y]}, 'whole'
    r = rng(seed, 'c03', name)
    for k in range(60 if tier == 'quick' else 600):
        cuts = {}
        for idx, blob, bounds in streams:
            n = r.choice([1, 2, 3, 5, 8])
            if len(blob) > 1:
                cuts[idx] = sorted(set(r.randrange(1, len(blob)) for _ in range(n)))
        yield 'rand:%d' % k, cuts, 'whole'


def plan(tier, seed):
    specs = []
    for name in convo.corpus():
        for recv in RECV_SIZES:
            for pending in (False, True):
                specs.append({'name': name, 'recv': recv, 'pending': pending})
    for name, (role, steps) in convo.corpus().items():
        if convo.eof_point(convo.with_final_close(steps)) is not None:
            for recv in RECV_SIZES:
                specs.append({'name': name, 'recv': recv, 'pending': recv == 16, 'eof': True})
    specs.append({'name': 'straddle'})
    specs.append({'name': 'long'})
    return specs


def run_shard(spec, tier, seed):
    res = Result()
    if spec['name'] == 'long':
        from . import c03long
        c03long.run(res, tier, seed)
        return res
    if spec['name'] == 'straddle':
        from . import c03straddle
        c03straddle.run(res, tier, seed)
        return res
    role, steps = convo.corpus()[spec['name']]
    eof = bool(spec.get('eof'))
    if eof:
        # baseline: the same conversation with the close delivered on its own, after the last burst
        steps = convo.with_final_close(steps)
    # the baseline has the same configured maximum length as the variants (an implementation may
    # legitimately treat PDUs longer than what it announced differently): only the delivery differs
    base, _ = observe(role, steps, None, 'pdu', spec['recv'], False)
    if base['outcome'] != 'end-of-script':
        res.violation('baseline-run-failed', 'C03.baseline',
                      'conversation %s: one-PDU-per-segment run ended with %s %s' % (
                          spec['name'], base['outcome'], base['error']), dict(spec, label='baseline'))
        return res
    # quick tier: pairs of cuts only in the plain configuration (thorough: everywhere)
    pairs = tier == 'thorough' or (spec['recv'] == 65536 and not spec['pending'])
    for label, cuts, mode in cut_sets(steps, tier, seed, spec['name'], pairs):
        if eof and label.startswith(('cut2', 'cut1+pdu')):
            continue
        case = {'conversation': spec['name'], 'recv': spec['recv'], 'pending': spec['pending'],
                'label': label, 'cuts': {str(k): v for k, v in (cuts or {}).items()}, 'mode': mode,
                'eof': eof}
        check_case(res, case, role, steps, base)
    return res


def replay(case):
    res = Result()
    if case.get('long'):
        from . import c03long
        c03long.run(res, 'quick', 0, replay_case=case)
        return res
    if case.get('straddle'):
        from . import c03straddle
        c03straddle.run(res, 'quick', 0, replay_case=case)
        return res
    role, steps = convo.corpus()[case['conversation']]
    if case.get('eof'):
        steps = convo.with_final_close(steps)
    base, _ = observe(role, steps, None, 'pdu', case.get('recv', 65536), False)
    check_case(res, case, role, steps, base)
    return res


def check_case(res, case, role, steps, base):
    res.evaluations += 1
    cuts = {int(k): v for k, v in case['cuts'].items()} or None
    obs, delivered = observe(role, steps, cuts, case['mode'], case['recv'], case['pending'],
                             bool(case.get('eof')))
    res.distinct.add('%s|%s|%d|%d|%d' % (case['conversation'], case['label'], case['recv'],
                                         case['pending'], bool(case.get('eof'))))
    res.sample({'case': case, 'events': obs['events'], 'wire_len': len(obs['wire']),
                'indications': [i[0] for i in obs['indications']]}, limit=4)
    res.count('oracle.differential')
    res.count('monitor.pdu-count-conservation', delivered['checks'])
    if delivered['bad']:
        res.violation('pdu-count-conservation', 'C03.conservation',
                      '%s [%s recv=%d pending=%s]: %s' % (case['conversation'], case['label'],
                                                          case['recv'], case['pending'],
                                                          delivered['bad']), case)
    for channel in ('outcome', 'events', 'indications', 'wire', 'state', 'closed', 'timer'):
        if obs[channel] != base[channel]:
            a, b = obs[channel], base[channel]
            if channel == 'wire':
                a, b = a[:64].hex() + '..(%d)' % len(a), b[:64].hex() + '..(%d)' % len(b)
            elif channel == 'indications':
                a = [i[:3] for i in a]
                b = [i[:3] for i in b]
            res.violation('segmentation-changes-' + channel, 'C03.differential',
                          '%s [%s recv=%d pending=%s]: %s = %r, baseline %r%s' % (
                              case['conversation'], case['label'], case['recv'], case['pending'],
                              channel, a, b, (' error=%s' % obs['error']) if obs['error'] else ''),
                          case)
            break
