"""C08 - transmitted command sets are well-formed PS3.7 command groups.

Every message goes through the real ``Association.send`` (stub provider, E4);
the command fragments are concatenated and read by the independent
implicit-VR-LE element reader: group length = bytes that follow, ascending
tags in group 0000, command field = PS3.7 code of the class, data-set-type =
0101H exactly when no data fragments follow.  The same object is sent up to 5
times with fields and data set changed in between.
"""
from __future__ import annotations

from . import msgs, refcodec as R, stubdul
from .common import Result, rng, chunked

LEVEL = 'exploration'
ENGINE = 'stubdul+refcodec'
TECHNIQUE = ('runtime monitor on Association.send output: independent command-set reader over the concatenated command '
             'fragments, across histories of repeated sends of one message object')
LEVEL_TEXT = ('all 23 message classes x UID lengths 1..64 x boundary ids/statuses x data set absent/present x re-send '
              'histories of length 1..5 x both construction paths; seeded sample of an unbounded space')
LEVEL_NOTE = 'trusts the implicit-VR-LE reader of vf/refcodec.py and the PS3.7 command-field table in vf/msgs.py'
RULE = ('case = (message class, construction path, UID length, history of 1..5 sends with field / data-set changes); '
        'distinct = (class, path, uid length, data-set presence pattern over the history); non-trivial = every case '
        '(each transmits at least one command set)')
ASSUMPTIONS = ['pydicom encodes single elements correctly (the group length is checked against the bytes actually sent)']
REQUIRED = ['oracle.command-set-parsed', 'oracle.dataset-flag', 'oracle.resend']

N = {'quick': 6000, 'thorough': 600000}


def exhaustive(tier):
    return False


def plan(tier, seed):
    specs = [{'lo': p[0], 'hi': p[-1] + 1} for p in chunked(range(N[tier]), 16) if p]
    # decoded-and-forwarded messages once more in a process that logs at DEBUG level through a
    # formatting handler (vf/runner.py)
    specs.append({'lo': 2944, 'hi': 3680, 'debug_logging': True})
    return specs


def run_shard(spec, tier, seed):
    res = Result()
    for i in range(spec['lo'], spec['hi']):
        run_case(res, {'index': i, 'seed': seed})
    return res


def replay(case):
    res = Result()
    run_case(res, case)
    return res


def run_case(res, case):
    from pynetdicom2 import applicationentity, asceprovider, dsutils
    i, seed = case['index'], case['seed']
    r = rng(seed, 'c08', i)
    name = msgs.CLASS_NAMES[i % 23]
    uid_len = 1 + (i // 23) % 64
    path = 'decoded' if (i // (23 * 64)) % 3 == 2 else 'built'
    res.evaluations += 1
    with stubdul.stubbed():
        ae = applicationentity.ClientAE('C08')
        assoc = asceprovider.Association(ae, None, r.choice([16384, 65536, 256, 64]))
        # an association always has its negotiated contexts
        from pydicom import uid as _uid
        assoc.accepted_contexts = {c: asceprovider.PContextDef(c, _uid.UID('1.2.840.10008.5.1.4.1.1.%d' % c),
                                                               _uid.ImplicitVRLittleEndian)
                                   for c in (1, 3, 5, 127, 255)}
        if path == 'built':
            msg, values = msgs.make(name, r, uid_len)
        else:
            raw, fields = msgs.reference_command(name, r, with_data=False)
            msg = msgs.message_class(name)(dsutils.decode(raw, True, True))
            values = None
        nsend = r.choice([1, 1, 2, 3, 5])
        pattern = []
        for k in range(nsend):
            # change the message between sends, the way the C-FIND / C-MOVE providers do
            lists = sorted(kw for kw, v in (values or {}).items() if isinstance(v, list))
            if k and lists and r.random() < 0.4:
                # nothing changes between two sends but a multi-valued element, in place
                kw = r.choice(lists)
                extra = r.randrange(0, 0xFFFFFFFF)
                if r.random() < 0.6:
                    getattr(msg.command_set, kw).append(extra)
                    values[kw] = list(values[kw]) + [extra]
                else:
                    getattr(msg.command_set, kw)[0] = extra
                    values[kw] = [extra] + list(values[kw])[1:]
                res.count('sim.only-a-list-changed-in-place')
            elif k or r.random() < 0.7:
                choice = r.random()
                if choice < 0.45:
                    size = r.choice([1, 2, 7, 8, 100, 1000])
                    msg.data_set = bytes(r.getrandbits(8) for _ in range(size))
                    if r.random() < 0.2:
                        # the data set as a stream that is attached first and rewound afterwards
                        # (it is read when the message is sent)
                        import io
                        stream = io.BytesIO()
                        stream_payload = msg.data_set
                        stream.write(stream_payload)
                        msg.data_set = stream
                        stream.seek(0)
                        res.count('sim.stream-attached-before-rewinding')
                    if r.random() < 0.2:
                        # the application states "data set present" with another legal value
                        msg.command_set.CommandDataSetType = r.choice([0x0000, 0x0102, 0xFFFF, 0x0100])
                        res.count('sim.other-present-value')
                elif choice < 0.7:
                    msg.data_set = None
                elif choice < 0.8:
                    msg.data_set = b''
                if values is not None and r.random() < 0.7:
                    new = msgs.fill(msg, r, r.randrange(1, 65), unset_prob=0.5)
                    values.update(new)
                if values and k and r.random() < 0.3:
                    # an element removed again, or a multi-valued one extended in place
                    from pydicom import datadict
                    res.count('sim.element-removed-or-extended')
                    lists = [kw for kw, v in values.items() if isinstance(v, list)]
                    if lists and r.random() < 0.5:
                        kw = r.choice(sorted(lists))
                        extra = r.randrange(0, 0xFFFFFFFF)
                        if r.random() < 0.5:
                            getattr(msg.command_set, kw).append(extra)
                            values[kw] = list(values[kw]) + [extra]
                        else:
                            # one item replaced in place: same length, other content
                            getattr(msg.command_set, kw)[-1] = extra
                            values[kw] = list(values[kw])[:-1] + [extra]
                    else:
                        optional = sorted(kw for kw in values if kw not in (
                            'CommandField', 'CommandDataSetType', 'MessageID', 'MessageIDBeingRespondedTo'))
                        if optional:
                            kw = r.choice(optional)
                            del msg.command_set[datadict.tag_for_keyword(kw)]
                            del values[kw]
            has_data = bool(msg.data_set)
            pattern.append(has_data)
            ctx = r.choice([1, 3, 5, 127, 255])
            if getattr(msg.data_set, 'closed', False):
                # (the library closes a stream it has sent: the owner attaches a fresh one - again
                # before rewinding it)
                import io
                fresh = io.BytesIO()
                fresh.write(stream_payload)
                msg.data_set = fresh
                fresh.seek(0)
            assoc.send(msg, ctx)
            pdus = assoc.dul.sent_messages()[-1]
            judge(res, dict(case, cls=name, path=path, send=k, pattern=list(pattern)), name, msg,
                  values, pdus, has_data, k)
    res.distinct.add('%s|%s|%d|%s' % (name, path, uid_len, ''.join('D' if p else '-' for p in pattern)))


def judge(res, case, name, msg, values, pdus, has_data, k):
    wire = stubdul.message_wire(pdus)
    res.count('oracle.command-set-parsed')
    if k:
        res.count('oracle.resend')
    where = '%s (send #%d, %s)' % (name, k + 1, case['path'])
    if wire['problems']:
        res.violation('malformed-pdata', 'C08.wire', '%s: %s' % (where, wire['problems'][0]), case)
        return
    try:
        cs = R.parse_command_set(wire['command'])
    except R.RefError as exc:
        res.violation('command-set-unreadable', 'C08.command-set', '%s: %s' % (where, exc), case)
        return
    res.sample({'case': case, 'command_hex': wire['command'][:60].hex(),
                'group_length': cs.get(R.TAG_GROUP_LENGTH), 'data_fragments': len(wire['checker'].data)},
               limit=4)
    for problem in cs['_problems']:
        if problem.startswith('group length says'):
            key = 'group-length-wrong'
        elif 'ascending' in problem:
            key = 'tags-not-ascending'
        elif 'outside group' in problem:
            key = 'element-outside-group-0000'
        elif 'odd value length' in problem:
            key = 'odd-value-length'
        elif 'missing' in problem:
            key = 'mandatory-element-missing'
        else:
            key = 'command-set-malformed'
        res.violation(key, 'C08.command-set', '%s: %s' % (where, problem), case)
    if cs.get(R.TAG_COMMAND_FIELD) != msgs.STANDARD[name]:
        res.violation('command-field-wrong', 'C08.command-field',
                      '%s: command field %r, PS3.7 says %04XH' % (where, cs.get(R.TAG_COMMAND_FIELD),
                                                                   msgs.STANDARD[name]), case)
    res.count('oracle.dataset-flag')
    says_none = cs.get(R.TAG_DATA_SET_TYPE) == 0x0101
    follows = wire['has_data']
    if says_none and follows:
        res.violation('dataset-flag:none-but-data-follows', 'C08.dataset-flag',
                      '%s: CommandDataSetType=0101H but %d data fragments follow' % (
                          where, len(wire['checker'].data)), case)
    if not says_none and not follows:
        res.violation('dataset-flag:present-but-no-data-follows', 'C08.dataset-flag',
                      '%s: CommandDataSetType=%r but no data fragment follows (data_set=%r)' % (
                          where, cs.get(R.TAG_DATA_SET_TYPE), type(msg.data_set).__name__), case)
    if follows != has_data:
        res.violation('data-fragments-vs-data-set', 'C08.dataset-flag',
                      '%s: data fragments follow=%r but message data set present=%r' % (
                          where, follows, has_data), case)
    if values:
        for tag, want in msgs.expected_values(values).items():
            if tag not in cs:
                res.violation('field-missing', 'C08.fields', '%s: element %04X,%04X not transmitted' % (
                    (where,) + tag), case)
            elif not msgs.compare_field(tag, want, cs[tag]):
                res.violation('field-value-wrong', 'C08.fields', '%s: element %04X,%04X = %r, set to %r' % (
                    where, tag[0], tag[1], cs[tag], want), case)
