"""C02 - wire format matches the PS3.8 / PS3.7 layouts.

Direction 1: bytes the library emits, read by the strict length-driven
reference parser, give exactly the field values that were encoded, and
len(bytes) == the self-reported total length (at every nesting level).
Direction 2: reference encodings of conformant PDUs (item/sub-item orders the
library never emits, unknown sub-item types, several transfer syntaxes, several
PDVs, space padded titles) decode to the corresponding field values.
"""
from __future__ import annotations

from . import c01, gen, libmap, pducases, refcodec
from .common import Result, chunked

LEVEL = 'exploration'
ENGINE = 'refcodec+gen'
TECHNIQUE = 'differential monitor: library encoder vs independent strict reference parser, reference encoder vs library decoder, length contracts at every nesting level'
LEVEL_TEXT = ('both directions checked against a reference codec written from the standard on every '
              'generated structure incl. orders/sub-items the library never emits; sample of an '
              'unbounded space, hence exploration')
LEVEL_NOTE = 'trusts the transcription of PS3.8 9.3 / Annex D in vf/refcodec.py (DESIGN.md appendix B)'
RULE = ('same case streams as C01 plus every permutation of up to 3 distinct user-information '
        'sub-item kinds (reference encoded); distinct = structural signature x direction; '
        'non-trivial = has nested items or non-default fields')
ASSUMPTIONS = ['refcodec is a faithful transcription of PS3.8 9.3 / Annex D (Appendix B of DESIGN.md)',
               'AE titles compared without insignificant leading/trailing spaces and NULs']
REQUIRED = ['oracle.reencode-after-growth', 'oracle.lib-bytes-parsed', 'oracle.total-length', 'oracle.ref-bytes-decoded',
            'oracle.nested-length']

N_RANDOM = {'quick': 4000, 'thorough': 1500000}
SHARDS = {'quick': 8, 'thorough': 16}


def exhaustive(tier):
    return False


def plan(tier, seed):
    specs = [{'name': 'enum', 'enums': ['adjacency', 'items', 'boundary']},
             {'name': 'subperm'}]
    for part in chunked(range(N_RANDOM[tier]), SHARDS[tier]):
        if part:
            specs.append({'name': 'random', 'lo': part[0], 'hi': part[-1] + 1})
    return specs


def run_shard(spec, tier, seed):
    res = Result()
    if spec['name'] == 'enum':
        for which in spec['enums']:
            for desc, tree in pducases.enum_cases(which, seed):
                check_case(res, desc, tree)
    elif spec['name'] == 'subperm':
        for desc, tree in pducases.subperm_cases(seed):
            check_case(res, desc, tree)
    else:
        for i in range(spec['lo'], spec['hi']):
            desc, tree = pducases.random_case(seed, i)
            check_case(res, desc, tree)
    return res


def replay(case):
    res = Result()
    check_case(res, case, pducases.regenerate(case))
    return res


def check_case(res, desc, tree):
    res.evaluations += 1
    if c01._nontrivial(tree):
        res.sig(pducases.features(tree))
    want = libmap.normalise(tree)
    # ---- direction 1: library encodes, reference parses
    x = None
    try:
        x = libmap.tree_to_lib(tree)
    except Exception:
        res.count('skipped.unrepresentable')
    if x is not None:
        try:
            b = x.encode()
        except Exception as exc:
            res.violation('encode-raises', 'C02.lib-bytes', '%s.encode() raised %r' % (
                type(x).__name__, exc), desc)
            b = None
        if b is not None:
            res.sample({'case': desc, 'lib_bytes_prefix': b[:48].hex(), 'len': len(b)}, limit=4)
            res.count('oracle.total-length')
            try:
                claimed = x.total_length()
            except Exception as exc:
                claimed = 'raised %r' % (exc,)
            if claimed != len(b):
                res.violation('total-length-wrong', 'C02.total-length',
                              '%s.total_length() = %r but encode() gave %d bytes' % (
                                  type(x).__name__, claimed, len(b)), desc)
            res.count('oracle.lib-bytes-parsed')
            try:
                got = libmap.normalise(refcodec.parse_pdu(b))
            except refcodec.RefError as exc:
                res.violation('lib-bytes-malformed', 'C02.lib-bytes',
                              'reference parser rejects %s bytes: %s' % (type(x).__name__, exc),
                              desc)
                got = None
            if got is not None:
                diff = libmap.tree_diff(want, got)
                if diff:
                    res.violation('lib-bytes-wrong-fields', 'C02.lib-bytes',
                                  'encoded %s read by the standard layout differs: %s' % (
                                      type(x).__name__, diff), desc)
            nested_lengths(res, desc, x)
            grown = grow(tree, x)
            if grown is not None:
                # the same object encoded again after it was extended (an application hook adds a
                # sub-item to the user information it was given, a sender adds a PDV): every length
                # field has to follow
                res.count('oracle.reencode-after-growth')
                try:
                    got2 = libmap.normalise(refcodec.parse_pdu(x.encode()))
                    diff = libmap.tree_diff(libmap.normalise(grown), got2)
                except refcodec.RefError as exc:
                    diff = 'reference parser rejects the bytes: %s' % exc
                except Exception as exc:
                    diff = 'encode() raised %r' % (exc,)
                if diff:
                    res.violation('stale-lengths-after-growth', 'C02.lib-bytes',
                                  '%s extended after its first encode(): %s' % (type(x).__name__, diff), desc)
                nested_lengths(res, desc, x)
    # ---- direction 2: reference encodes, library decodes
    try:
        rb = refcodec.build_pdu(tree)
    except Exception:
        res.count('skipped.ref-unbuildable')
        return
    res.count('oracle.ref-bytes-decoded')
    cls = libmap.PDU_CLASSES[tree['type']]
    try:
        y = cls.decode(rb)
        got = libmap.normalise(libmap.lib_to_tree(y))
    except Exception as exc:
        res.violation('ref-bytes-decode-raises', 'C02.ref-bytes',
                      '%s.decode(reference bytes) raised %r' % (cls.__name__, exc), desc)
        return
    diff = libmap.tree_diff(want, got)
    if diff:
        res.violation('ref-bytes-wrong-fields', 'C02.ref-bytes',
                      '%s.decode(reference bytes) gives other field values: %s' % (
                          cls.__name__, diff), desc)


def grow(tree, x):
    """Extend the library object in place (and return the tree it now corresponds to)."""
    import copy
    t = tree['type']
    if t in (1, 2) and tree['items'] and tree['items'][-1]['type'] == 0x50:
        sub = {'type': 0x55, 'rsv': 0, 'name': b'ADDED-LATER'}
        x.variable_items[-1].user_data.append(libmap.sub_to_lib(sub))
        tree2 = copy.deepcopy(tree)
        tree2['items'][-1]['subs'].append(sub)
        return tree2
    if t == 4:
        pdv = {'ctx': 77, 'data': b'\x02' + b'grown' * 3}
        if not x.data_value_items:
            return None
        cls = type(x.data_value_items[0])
        tree2 = copy.deepcopy(tree)
        if tree['pdvs'][0]['ctx'] % 4 == 1:
            # same number of items, one of them replaced in place by a longer one
            x.data_value_items[0] = cls(pdv['ctx'], pdv['data'] + tree['pdvs'][0]['data'])
            tree2['pdvs'][0] = {'ctx': pdv['ctx'], 'data': pdv['data'] + tree['pdvs'][0]['data']}
        elif tree['pdvs'][0]['ctx'] % 4 == 3:
            # ... or its value rewritten
            x.data_value_items[0].data_value = tree['pdvs'][0]['data'] + b'+tail'
            tree2['pdvs'][0]['data'] = tree['pdvs'][0]['data'] + b'+tail'
        else:
            x.data_value_items.append(cls(pdv['ctx'], pdv['data']))
            tree2['pdvs'].append(pdv)
        return tree2
    return None


def nested_lengths(res, desc, x):
    """M1 at every nesting level: len(encode()) == total length, and the
    encoded length field equals the number of bytes that follow it."""
    for path, obj in c01.nested(x):
        res.count('oracle.nested-length')
        try:
            raw = obj.encode()
            total = obj.total_length
            if callable(total):
                total = total()
        except Exception as exc:
            res.violation('encode-raises', 'C02.nested-length', '%s: %r' % (path, exc), desc)
            continue
        if total != len(raw):
            res.violation('total-length-wrong', 'C02.nested-length',
                          '%s %s: total length %r but %d bytes encoded' % (
                              path, type(obj).__name__, total, len(raw)), desc)
        # length field: PDV items carry a 4-byte length first, everything else type,rsv,len16
        if type(obj).__name__ == 'PresentationDataValueItem':
            declared = int.from_bytes(raw[:4], 'big')
            follows = len(raw) - 4
        else:
            declared = int.from_bytes(raw[2:4], 'big')
            follows = len(raw) - 4
        if declared != follows:
            res.violation('length-field-wrong', 'C02.nested-length',
                          '%s %s: length field %d but %d bytes follow' % (
                              path, type(obj).__name__, declared, follows), desc)
