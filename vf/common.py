"""Shared result type, verdict discipline and small helpers."""
from __future__ import annotations

import hashlib
import json
import os
import random
import sys
import time

HOME = os.environ.get('VERIF_HOME') or os.path.dirname(os.path.dirname(os.path.abspath(__file__)))
REPO = os.environ.get('VERIF_REPO', '/repo')


class Result(object):
    """What one shard (or one replay) observed."""

    def __init__(self):
        self.evaluations = 0
        self.distinct = set()        # hashable signatures of non-trivial cases
        self.counters = {}           # monitor/oracle counters (summed over shards)
        self.violations = []         # dicts: key, monitor, message, case
        self.samples = []            # a few actual cases
        self.inconclusive = []       # reasons
        self.notes = {}

    # -- recording -------------------------------------------------------
    def count(self, name, n=1):
        self.counters[name] = self.counters.get(name, 0) + n

    def sig(self, *parts):
        self.distinct.add(sig(*parts))

    def sample(self, case, limit=6):
        if len(self.samples) < limit:
            self.samples.append(case)

    def violation(self, key, monitor, message, case):
        """key: mechanism key (what kind of failure), never a seed or hash."""
        self.count('violations.' + key)
        # keep a few witnesses per mechanism key (never let one frequent key
        # crowd out the others)
        if self.counters['violations.' + key] <= 3:
            self.violations.append({'key': key, 'monitor': monitor,
                                    'message': message, 'case': case})

    # -- (de)serialisation ----------------------------------------------
    def to_json(self):
        return {'evaluations': self.evaluations,
                'distinct': sorted(self.distinct, key=str),
                'counters': self.counters, 'violations': self.violations,
                'samples': self.samples, 'inconclusive': self.inconclusive,
                'notes': self.notes}

    @classmethod
    def from_json(cls, obj):
        res = cls()
        res.evaluations = obj['evaluations']
        res.distinct = set(_hashable(x) for x in obj['distinct'])
        res.counters = obj['counters']
        res.violations = obj['violations']
        res.samples = obj['samples']
        res.inconclusive = obj['inconclusive']
        res.notes = obj.get('notes', {})
        return res

    def merge(self, other):
        self.evaluations += other.evaluations
        self.distinct |= other.distinct
        for k, v in other.counters.items():
            self.counters[k] = self.counters.get(k, 0) + v
        have = {}
        for v in self.violations:
            have[v['key']] = have.get(v['key'], 0) + 1
        for v in other.violations:
            if have.get(v['key'], 0) < 3:
                self.violations.append(v)
                have[v['key']] = have.get(v['key'], 0) + 1
        for s in other.samples:
            if len(self.samples) < 8:
                self.samples.append(s)
        self.inconclusive.extend(other.inconclusive)
        for k, v in other.notes.items():
            if k not in self.notes:
                self.notes[k] = v
            elif isinstance(v, (int, float)) and isinstance(self.notes[k], (int, float)):
                self.notes[k] = self.notes[k] + v
            elif isinstance(v, list) and isinstance(self.notes[k], list):
                for item in v:
                    if item not in self.notes[k] and len(self.notes[k]) < 400:
                        self.notes[k].append(item)


def _hashable(x):
    if isinstance(x, list):
        return tuple(_hashable(i) for i in x)
    return x


def sig(*parts):
    """Short stable signature of a case (used for distinct counting)."""
    h = hashlib.blake2b(repr(parts).encode('utf8', 'replace'), digest_size=6)
    return h.hexdigest()


def rng(seed, *salt):
    h = hashlib.blake2b(repr((seed,) + salt).encode(), digest_size=8).digest()
    return random.Random(int.from_bytes(h, 'big'))


def hx(b):
    return b.hex() if isinstance(b, (bytes, bytearray)) else b


def unhx(s):
    return bytes.fromhex(s)


def short(obj, n=300):
    s = obj if isinstance(obj, str) else repr(obj)
    return s if len(s) <= n else s[:n] + '...<%d more>' % (len(s) - n)


def assert_repo_import():
    """The library under observation must come from the repository tree."""
    import pynetdicom2
    path = os.path.realpath(pynetdicom2.__file__)
    root = os.path.realpath(REPO)
    return path.startswith(root + os.sep), path


def chunked(seq, n):
    """Split seq into n nearly equal contiguous parts."""
    seq = list(seq)
    k, m = divmod(len(seq), n)
    out = []
    pos = 0
    for i in range(n):
        size = k + (1 if i < m else 0)
        out.append(seq[pos:pos + size])
        pos += size
    return out


class Deadline(object):
    """Soft wall-clock budget for *generation* only (never a verdict)."""

    def __init__(self, seconds):
        self.end = time.time() + seconds

    def passed(self):
        return time.time() > self.end


def jdump(obj, path):
    tmp = path + '.tmp%d' % os.getpid()
    with open(tmp, 'w') as f:
        json.dump(obj, f, indent=1, sort_keys=True, default=_json_default)
    os.replace(tmp, path)


def _json_default(o):
    if isinstance(o, (bytes, bytearray)):
        return o.hex()
    if isinstance(o, (set, frozenset)):
        return sorted(o, key=str)
    if isinstance(o, tuple):
        return list(o)
    return repr(o)


def eprint(*a):
    print(*a, file=sys.stderr)
    sys.stderr.flush()
