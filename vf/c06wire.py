"""C06 / C08 - what reaches the wire when the application does not wait.

The fragment stream of a message is judged elsewhere as ``encode()`` yields it
and as ``Association.send`` hands it to the provider.  Here the real provider
thread writes it to a real socket while the application goes on at once:

(a) it sends a message of many fragments and releases the association right
    away (orderly release loses nothing: every fragment, the last one
    included, is on the wire before the A-RELEASE-RQ);
(b) two threads of the application send on the same association (a command
    set announcing a data set is followed by the fragments of *that* data set;
    the fragments of two messages are never mixed).

A reference peer records the PDUs; the fragment-stream checker of the reference
codec judges them.
"""
from __future__ import annotations

import threading

from . import inject, refcodec as R, svc, tcpnet
from .common import rng

SEND_PATH = ['pynetdicom2.asceprovider.Association.send', 'pynetdicom2.dulprovider.DULServiceProvider.send']


def _store(k, size, seed):
    from pynetdicom2 import dimsemessages
    r = rng(seed, 'c06-wire', k, size)
    msg = dimsemessages.CStoreRQMessage()
    msg.message_id = 100 + k
    msg.priority = 0
    msg.sop_class_uid = svc.CT
    msg.affected_sop_instance_uid = '1.2.826.66.%d' % k
    data = bytes(r.getrandbits(8) for _ in range(997)) * (size // 997 + 1)
    msg.data_set = data[:size]
    return msg, data[:size]


def _record(peer, seen, until_release=True):
    """Read PDUs until the A-RELEASE-RQ (answered) or the end of the connection."""
    peer.accept(max_len=seen['max_len'])
    while True:
        try:
            pdu = peer.recv_pdu()
        except (tcpnet.PeerClosed, OSError):
            seen['end'] = 'closed'
            return
        if pdu['type'] == 4:
            seen['pdus'].append(pdu)
            continue
        seen['end'] = pdu['type']
        if pdu['type'] == 5:
            peer.send_pdu({'type': 6})
        return


def _messages(pdus):
    """Split the recorded P-DATA-TF PDUs into messages with the reference stream checker:
    -> (list of (ctx, command dict, data bytes), problems)"""
    out, problems = [], []
    chk = R.StreamChecker()
    cmd = None
    for pdu in pdus:
        for pdv in pdu['pdvs']:
            chk.feed(pdv['ctx'], pdv['data'])
            if chk.problems:
                problems += [p for p in chk.problems if p not in problems]
            if chk.command_done and cmd is None:
                try:
                    cmd = R.parse_command_set(chk.command_bytes())
                except R.RefError as exc:
                    problems.append('command set unreadable: %s' % exc)
                    cmd = {}
            if cmd is not None and (cmd.get(R.TAG_DATA_SET_TYPE) == 0x0101 or chk.data_done):
                out.append((chk.ctx, cmd, chk.data_bytes()))
                chk, cmd = R.StreamChecker(), None
    if chk.n:
        problems.append('the last message on the wire is incomplete (%d command, %d data bytes, no last fragment)' % (
            len(chk.command_bytes()), len(chk.data_bytes())))
    return out, problems


def release_case(res, case, attempt=0):
    from pynetdicom2 import applicationentity, sopclass
    k, seed = case['round'], case['seed']
    if not attempt:
        res.evaluations += 1
    max_len = [4096, 16384, 1024, 65536][k % 4]
    size = [200000, 1000000, 60000, 3000000][k % 4]
    where = 'message of %d bytes (peer maximum %d) sent, association released at once' % (size, max_len)
    seen = {'pdus': [], 'max_len': max_len, 'end': None}
    msg, data = _store(k, size, seed)
    net = tcpnet.Net(seed=seed * 11 + k)
    error = None
    with tcpnet.instrument(net):
        srv = tcpnet.PeerServer(lambda peer: _record(peer, seen), timeout=20.0)
        try:
            client = applicationentity.ClientAE('WIRESCU', supported_ts=['1.2.840.10008.1.2'])
            client.timeout = 15
            client.add_scu(sopclass.storage_scu, [svc.CT])
            try:
                with client.request_association({'aet': 'REC', 'address': '127.0.0.1', 'port': srv.port}) as assoc:
                    ctx = [c for c, v in assoc.accepted_contexts.items() if str(v.sop_class) == svc.CT][0]
                    assoc.send(msg, ctx)
            except Exception as exc:
                error = exc
        finally:
            srv.close()
    tcpnet.wait_quiet(0, 3.0)
    if tcpnet.is_timeout(error) or (srv.errors and error is None and seen['end'] is None):
        res.count('flaky-timeouts')
        if attempt < 2:
            return release_case(res, case, attempt + 1)
        res.inconclusive.append('%s: %r %r' % (where, error, srv.errors[:1]))
        return
    res.count('oracle.message-complete-before-release')
    res.distinct.add('wire-release|%d|%d' % (size, max_len))
    msgs_, problems = _messages(seen['pdus'])
    res.sample({'case': case, 'pdus': len(seen['pdus']), 'ended_with': seen['end'], 'problems': problems[:2],
                'error': repr(error) if error else None}, limit=2)
    if problems or len(msgs_) != 1 or msgs_[0][2] != data:
        got = len(msgs_[0][2]) if msgs_ else 0
        res.violation('message-truncated-by-release', 'C06.wire',
                      '%s: %d P-DATA-TF PDUs before PDU type %r; %d complete messages, %d of %d data bytes; %s' % (
                          where, len(seen['pdus']), seen['end'], len(msgs_), got, len(data),
                          problems[:1] or ''), dict(case, wire='release'))


def threads_case(res, case, attempt=0):
    from pynetdicom2 import applicationentity, dimsemessages, sopclass
    k, seed = case['round'], case['seed']
    if not attempt:
        res.evaluations += 1
    nthreads = [2, 3, 4][k % 3]
    max_len = [4096, 1024, 16384][k % 3]
    where = '%d threads sending on one association (peer maximum %d)' % (nthreads, max_len)
    seen = {'pdus': [], 'max_len': max_len, 'end': None}
    plans = []
    for t in range(nthreads):
        items = []
        for j in range(6):
            if (t + j) % 3 == 2:
                echo = dimsemessages.CEchoRQMessage()
                echo.message_id = 1000 * t + j
                echo.sop_class_uid = svc.VERIFICATION
                items.append((echo, None))
            else:
                items.append(_store(1000 * t + j, 20000 + 7000 * ((t + j) % 4), seed))
        plans.append(items)
    net = tcpnet.Net(seed=seed * 13 + k)
    error = []
    inj = {}
    with tcpnet.instrument(net), inject.line_delays(SEND_PATH, seed=seed + k, delays=(0.0, 0.0005, 0.002), stats=inj):
        srv = tcpnet.PeerServer(lambda peer: _record(peer, seen), timeout=30.0)
        try:
            client = applicationentity.ClientAE('WIRESCU', supported_ts=['1.2.840.10008.1.2'])
            client.timeout = 20
            client.add_scu(sopclass.storage_scu, [svc.CT])
            client.add_scu(sopclass.verification_scu)
            try:
                with client.request_association({'aet': 'REC', 'address': '127.0.0.1', 'port': srv.port}) as assoc:
                    ctx_of = {str(v.sop_class): c for c, v in assoc.accepted_contexts.items()}
                    start = threading.Barrier(nthreads)

                    def worker(t):
                        try:
                            start.wait(10)
                            for m, _ in plans[t]:
                                assoc.send(m, ctx_of[str(m.sop_class_uid)])
                        except Exception as exc:
                            error.append(exc)
                    threads = [threading.Thread(target=worker, args=(t,), daemon=True) for t in range(nthreads)]
                    for th in threads:
                        th.start()
                    for th in threads:
                        th.join(30)
            except Exception as exc:
                error.append(exc)
        finally:
            srv.close()
    tcpnet.wait_quiet(0, 3.0)
    if any(tcpnet.is_timeout(e) for e in error) or (srv.errors and not error and seen['end'] is None):
        res.count('flaky-timeouts')
        if attempt < 2:
            return threads_case(res, case, attempt + 1)
        res.inconclusive.append('%s: %r %r' % (where, error[:1], srv.errors[:1]))
        return
    res.count('oracle.messages-not-interleaved')
    res.count('inject.lines-delayed', inj.get('hits', 0))
    res.distinct.add('wire-threads|%d|%d' % (nthreads, max_len))
    msgs_, problems = _messages(seen['pdus'])
    want = {}
    for items in plans:
        for m, data in items:
            want[m.message_id] = data
    got = {c.get(R.TAG_MESSAGE_ID): d for _, c, d in msgs_}
    res.sample({'case': case, 'pdus': len(seen['pdus']), 'messages': len(msgs_), 'problems': problems[:2]}, limit=2)
    if error and not problems:
        res.violation('send-raises-under-concurrency', 'C08.wire', '%s: %r' % (where, error[0]),
                      dict(case, wire='threads'))
        return
    bad = [mid for mid, data in want.items() if got.get(mid, b'') != (data or b'')]
    if problems or len(msgs_) != len(want) or bad:
        res.violation('messages-interleaved-on-the-wire', 'C08.wire',
                      '%s: %d messages sent, %d complete messages on the wire, %d with other content; %s' % (
                          where, len(want), len(msgs_), len(bad), problems[:1] or ''), dict(case, wire='threads'))
        return
    # per thread the order of its own messages is kept
    order = [c.get(R.TAG_MESSAGE_ID) for _, c, _ in msgs_]
    for t, items in enumerate(plans):
        mine = [m.message_id for m, _ in items]
        if [x for x in order if x in mine] != mine:
            res.violation('messages-of-one-thread-reordered', 'C08.wire', '%s: thread %d sent %r, wire order %r' % (
                where, t, mine, [x for x in order if x in mine]), dict(case, wire='threads'))
            break
