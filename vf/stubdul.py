"""E4 - the ASCE / service layer in isolation.

``asceprovider.dulprovider.DULServiceProvider`` is replaced (only while a
``stubbed()`` block is active) by a stub offering the documented provider
interface send / receive / stop / kill.  ``send`` materialises a DIMSE fragment
generator *at once* and records both the PDU objects and their bytes;
``receive`` returns scripted items.  Everything above the provider - the real
``Association.send``, ``AssociationAcceptor``, ``AssociationRequester``, the
service callables of sopclass.py - runs unmodified and synchronously.
"""
from __future__ import annotations

import collections
import contextlib
import io

from pynetdicom2 import asceprovider, exceptions

from . import refcodec


class StubDUL(object):
    instances = []
    preload = None          # items for the script of the next stub created
    preload_on_empty = None  # on_empty callback for the next stub created

    def __init__(self, store_in_file=None, get_file_cb=None, dul_socket=None,
                 max_pdu_length=65536, *args, **kwargs):
        self.store_in_file = store_in_file
        self.get_file_cb = get_file_cb
        self.dul_socket = dul_socket
        self.max_pdu_length = max_pdu_length
        self.accepted_contexts = {}
        self.sent = []          # ('pdu', obj) | ('dimse', [PDataTfPDU, ...])
        self.script = collections.deque()
        self.killed = False
        self.stopped = 0
        self.on_send = None     # optional callback(stub, entry)
        self.on_empty = None    # optional callback(stub) -> item when the script is empty
        if StubDUL.preload:
            self.script.extend(StubDUL.preload)
            StubDUL.preload = None
        if StubDUL.preload_on_empty is not None:
            self.on_empty = StubDUL.preload_on_empty
            StubDUL.preload_on_empty = None
        StubDUL.instances.append(self)

    # -- documented provider interface
    def send(self, primitive):
        if hasattr(primitive, 'pdu_type'):
            entry = ('pdu', primitive)
        else:
            entry = ('dimse', list(primitive))
        self.sent.append(entry)
        if self.on_send is not None:
            self.on_send(self, entry)

    def receive(self, timeout=None):
        if self.script:
            item = self.script.popleft()
        elif self.on_empty is not None:
            item = self.on_empty(self)
        else:
            raise exceptions.DCMTimeoutError()
        if isinstance(item, BaseException) or (isinstance(item, type) and
                                               issubclass(item, BaseException)):
            raise item
        if callable(item) and not hasattr(item, 'pdu_type'):
            item = item(self)
        return item

    def stop(self):
        self.stopped += 1
        return True

    def kill(self):
        self.killed = True

    def is_alive(self):
        return not self.killed

    def join(self, timeout=None):
        pass

    # -- helpers for the harness
    def sent_pdus(self):
        return [e[1] for e in self.sent if e[0] == 'pdu']

    def sent_messages(self):
        return [e[1] for e in self.sent if e[0] == 'dimse']


@contextlib.contextmanager
def stubbed():
    """Within the block every Association gets a StubDUL as its provider."""
    mod = asceprovider.dulprovider
    if not hasattr(mod, 'DULServiceProvider'):
        raise RuntimeError('asceprovider.dulprovider.DULServiceProvider not found')
    saved = mod.DULServiceProvider
    mod.DULServiceProvider = StubDUL
    StubDUL.instances = []
    StubDUL.preload = None
    StubDUL.preload_on_empty = None
    try:
        yield StubDUL
    finally:
        mod.DULServiceProvider = saved


class FakeRequest(object):
    """Stands in for the accepted socket handed to the StreamRequestHandler."""

    def __init__(self):
        self.closed = False

    def makefile(self, *a, **kw):
        return io.BytesIO()

    def settimeout(self, t):
        pass

    def setsockopt(self, *a):
        pass

    def sendall(self, data):
        pass

    def close(self):
        self.closed = True

    def shutdown(self, how):
        pass

    def fileno(self):
        return 999


def message_wire(pdus):
    """A materialised DIMSE message -> dict with everything the oracles need:
    raw bytes per PDU, parsed trees, the fragment stream checker, command and
    data bytes."""
    raws = []
    trees = []
    problems = []
    chk = refcodec.StreamChecker()
    lengths = []
    for p in pdus:
        try:
            raw = p.encode()
        except Exception as exc:
            problems.append('PDU encode() raised %r' % (exc,))
            continue
        raws.append(raw)
        try:
            tree = refcodec.parse_pdu(raw)
        except refcodec.RefError as exc:
            problems.append('P-DATA-TF not well-formed: %s' % exc)
            continue
        if tree['type'] != 4:
            problems.append('PDU of type %d in a DIMSE message' % tree['type'])
            continue
        trees.append(tree)
        lengths.append(len(raw) - 6)
        if not tree['pdvs']:
            problems.append('P-DATA-TF without any PDV')
        for pdv in tree['pdvs']:
            chk.feed(pdv['ctx'], pdv['data'])
    return {'raws': raws, 'trees': trees, 'checker': chk, 'lengths': lengths,
            'problems': problems, 'command': chk.command_bytes(), 'data': chk.data_bytes(),
            'has_data': bool(chk.data), 'ctx': chk.ctx}
