"""C20 - a slow reader among busy neighbours.

One server entity and several requesting entities live in one process.  While
the requesting entities open and close associations all the time, reference
peers connect to the server, ask for a large result (several MB of C-FIND
responses) and then do not read for a few seconds - longer than any time-out the
*other* entities are configured with.  Their association must simply wait for
them: whatever the neighbours do to their own sockets, time-outs and settings
must not leak to this one.  Line-delay injection stretches the neighbours'
association set-up so that it overlaps the moment the slow reader is accepted.
"""
from __future__ import annotations

import threading
import time

from . import inject, refcodec as R, svc, tcpnet
from .common import rng

REQUEST_PATH = ['pynetdicom2.applicationentity.AEBase.request_association',
                'pynetdicom2.asceprovider.AssociationRequester.request',
                'pynetdicom2.asceprovider.AssociationRequester._request']


def run_round(res, case, attempt=0):
    from pynetdicom2 import applicationentity, dsutils, sopclass, statuses
    import pydicom
    k, seed = case['round'], case['seed']
    r = rng(seed, 'c20-slow', k)
    if not attempt:
        res.evaluations += 1
    nmatch, size = 48, 160 * 1024          # about 7.5 MB of responses: more than the socket buffers hold
    pause = 1.6
    where = 'slow-reader round %d: %d x %d KB of responses, reader pauses %.1f s four times, neighbours time out after ' \
            '0.8 s' % (k, nmatch, size // 1024, pause)
    net = tcpnet.Net(seed=seed * 401 + k)

    class Server(tcpnet.TapServerMixin, applicationentity.AE):
        def on_receive_find(self, context, ds):
            for j in range(nmatch):
                m = pydicom.Dataset()
                m.PatientID = str(ds.PatientID)
                m.PatientName = 'SLOW^%d' % j
                m.ImageComments = 'z' * size
                yield m, statuses.C_FIND_PENDING

    stop = threading.Event()
    neighbour_errors = []

    def neighbour(port, t):
        ae = applicationentity.ClientAE('NEIGHBOUR%d' % t)
        ae.timeout = 0.8
        ae.add_scu(sopclass.verification_scu)
        while not stop.is_set():
            try:
                with ae.request_association({'aet': 'SERVER', 'address': '127.0.0.1', 'port': port}) as assoc:
                    assoc.get_scu(svc.VERIFICATION)(1)
            except Exception as exc:
                neighbour_errors.append(exc)
            time.sleep(0.005)

    results = []

    def slow_reader(port, t, delay):
        out = {'received': 0, 'error': None, 'final': None}
        results.append(out)
        try:
            time.sleep(delay)
            peer = tcpnet.RefPeer.connect(port, timeout=20.0)
            try:
                # a small receive buffer: the sender really has to wait for this reader
                import socket as _socket
                peer.sock.setsockopt(_socket.SOL_SOCKET, _socket.SO_RCVBUF, 65536)
                peer.associate([(1, svc.FIND.encode(), (b'1.2.840.10008.1.2',))], called=b'SERVER',
                               calling=b'SLOW%d' % t, max_len=65536)
                q = pydicom.Dataset()
                q.PatientID = 'SLOW%d' % t
                q.QueryRetrieveLevel = 'PATIENT'
                peer.send_dimse(1, {R.TAG_AFFECTED_SOP_CLASS: svc.FIND, R.TAG_COMMAND_FIELD: 0x0020,
                                    R.TAG_MESSAGE_ID: 5, R.TAG_PRIORITY: 0}, dsutils.encode(q, True, True))
                while True:
                    if out['received'] in (0, 8, 20, 34) or (t == 0 and out['received'] == 27):
                        # (reader 0 once pauses longer than the serving entity's own time-out)
                        if t == 0 and out['received'] == 27:
                            time.sleep(3.0)
                        time.sleep(pause)              # busy with something else, again and again
                    item = peer.recv_dimse()
                    if isinstance(item, dict):
                        out['error'] = 'PDU type %r instead of a response' % item['type']
                        break
                    out['received'] += 1
                    if item[1].get(R.TAG_STATUS) not in (0xFF00, 0xFF01):
                        out['final'] = item[1].get(R.TAG_STATUS)
                        break
                try:
                    peer.release()
                except (tcpnet.PeerClosed, OSError):
                    pass        # everything asked for has arrived; how the idle association ends is not judged here
            finally:
                peer.close()
        except Exception as exc:
            out['error'] = exc

    inj = {}
    with tcpnet.instrument(net), inject.line_delays(REQUEST_PATH, seed=seed + k, delays=(0.0, 0.002, 0.005),
                                                    stats=inj):
        server = Server('SERVER', 0, max_pdu_length=65536)
        server.net = net
        server.timeout = 3.5        # how long the entity waits for a *request*; sending has no deadline
        server.add_scp(sopclass.verification_scp).add_scp(sopclass.qr_find_scp)
        with tcpnet.serving(server):
            threads = [threading.Thread(target=neighbour, args=(server.port, t), daemon=True) for t in range(3)]
            readers = [threading.Thread(target=slow_reader, args=(server.port, t, 0.05 + 0.2 * t), daemon=True)
                       for t in range(5)]
            for t in threads + readers:
                t.start()
            for t in readers:
                t.join(60)
            stop.set()
            for t in threads:
                t.join(10)
            tcpnet.wait_quiet(0, 5.0)
    if any(tcpnet.is_timeout(o['error']) for o in results):
        # the reference peer's own 20 s socket time-out on a loaded machine is not a verdict
        res.count('flaky-timeouts')
        if attempt < 2:
            return run_round(res, case, attempt + 1)
        res.inconclusive.append('%s: reference peer time-outs persist' % where)
        return
    res.count('oracle.slow-reader-left-alone')
    res.count('inject.lines-delayed', inj.get('hits', 0))
    res.distinct.add(net.signature())
    res.sample({'case': case, 'readers': [{'received': o['received'], 'final': o['final'],
                                           'error': str(o['error']) if o['error'] else None} for o in results],
                'neighbour_associations_failed': len(neighbour_errors)}, limit=2)
    for t, out in enumerate(results):
        if out['error'] is not None or out['received'] != nmatch + 1 or out['final'] != 0:
            res.violation('healthy-association-disturbed:slow-reader', 'C20.isolation',
                          '%s: reader %d got %d of %d responses (final %r): %s' % (
                              where, t, out['received'], nmatch + 1, out['final'], out['error']), case)
            break
