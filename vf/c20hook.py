"""C20 - one caller's admission takes its time; the others are admitted meanwhile.

An accepting entity decides about every incoming association in its
``on_association_request`` hook.  For one caller the hook is slow (it waits for
something - here: for an event that is set as soon as *another* caller, who came
later, has been admitted and served).  Associations are independent: the later
callers (and an association the entity itself requests elsewhere) are handled
while the first one is still pending.  The verdict is logical, not timed: if the
slow hook's wait runs out (10 s) before the others were served, they were held
up behind it.
"""
from __future__ import annotations

import threading

from . import refcodec as R, svc, tcpnet
from .common import rng


def run_round(res, case, attempt=0):
    from pynetdicom2 import applicationentity, exceptions, sopclass
    k, seed = case['round'], case['seed']
    r = rng(seed, 'c20-hook', k)
    if not attempt:
        res.evaluations += 1
    nfast = [1, 3, 6][k % 3]
    outgoing = k % 2 == 1                 # the entity also requests an association of its own meanwhile
    refuse_slow = k % 4 >= 2              # the slow caller is refused in the end / accepted
    where = 'slow admission round %d: %d later callers%s, slow caller finally %s' % (
        k, nfast, ' + one outgoing association' if outgoing else '', 'refused' if refuse_slow else 'accepted')
    others_done = threading.Event()
    slow_entered = threading.Event()
    state = {'waited_out': False}

    class Server(tcpnet.TapServerMixin, applicationentity.AE):
        def on_association_request(self, asce, assoc):
            if assoc.calling_ae_title.strip() == 'SLOWCALLER':
                slow_entered.set()
                if not others_done.wait(10):
                    state['waited_out'] = True
                if refuse_slow:
                    raise exceptions.AssociationRejectedError(2, 1, 1)

    def elsewhere(peer):
        peer.accept(max_len=16384)
        ctx, cmd, data, lengths, problems = peer.recv_dimse()
        peer.send_dimse(ctx, {R.TAG_AFFECTED_SOP_CLASS: svc.VERIFICATION, R.TAG_COMMAND_FIELD: 0x8030,
                              R.TAG_MESSAGE_ID_RSP: cmd.get(R.TAG_MESSAGE_ID), R.TAG_STATUS: 0})
        nxt = peer.recv_pdu()
        if nxt['type'] == 5:
            peer.send_pdu({'type': 6})

    net = tcpnet.Net(seed=seed * 89 + k)
    results = {}
    errors = []

    def caller(title, wait_for_slow):
        try:
            if wait_for_slow:
                slow_entered.wait(10)
            ae = applicationentity.ClientAE(title)
            ae.timeout = 25
            ae.add_scu(sopclass.verification_scu)
            with ae.request_association({'aet': 'HOOKSCP', 'address': '127.0.0.1', 'port': server.port}) as assoc:
                results[title] = int(assoc.get_scu(svc.VERIFICATION)(1))
        except exceptions.AssociationRejectedError as exc:
            results[title] = ('rejected', exc.result, exc.source, exc.diagnostic)
        except Exception as exc:
            results[title] = exc
            errors.append(exc)

    with tcpnet.instrument(net):
        other = tcpnet.PeerServer(elsewhere, timeout=20.0) if outgoing else None
        server = Server('HOOKSCP', 0)
        server.net = net
        server.timeout = 25
        server.add_scp(sopclass.verification_scp)
        server.add_scu(sopclass.verification_scu)
        try:
            with tcpnet.serving(server):
                slow = threading.Thread(target=caller, args=('SLOWCALLER', False), daemon=True)
                fast = [threading.Thread(target=caller, args=('FAST%d' % j, True), daemon=True)
                        for j in range(nfast)]
                slow.start()
                for t in fast:
                    t.start()
                if outgoing:
                    slow_entered.wait(10)
                    try:
                        with server.request_association({'aet': 'ELSEWHERE', 'address': '127.0.0.1',
                                                         'port': other.port}) as assoc:
                            results['outgoing'] = int(assoc.get_scu(svc.VERIFICATION)(1))
                    except Exception as exc:
                        results['outgoing'] = exc
                        errors.append(exc)
                for t in fast:
                    t.join(40)
                others_done.set()
                slow.join(40)
        finally:
            if other is not None:
                other.close()
    tcpnet.wait_quiet(0, 3.0)
    if not slow_entered.is_set() or (errors and all(tcpnet.is_timeout(e) for e in errors) and
                                     not state['waited_out']):
        res.count('flaky-timeouts')
        if attempt < 2:
            return run_round(res, case, attempt + 1)
        res.inconclusive.append('%s: %r' % (where, errors[:2]))
        return
    res.count('oracle.admission-independent')
    res.distinct.add('hook|%d|%s|%s' % (nfast, outgoing, refuse_slow))
    res.sample({'case': case, 'results': {t: (v if not isinstance(v, Exception) else repr(v))
                                          for t, v in sorted(results.items())},
                'slow_hook_waited_out': state['waited_out']}, limit=2)
    held_up = [t for t, v in sorted(results.items()) if t != 'SLOWCALLER' and v != 0]
    if state['waited_out'] or held_up:
        res.violation('admission-held-up-behind-another-caller', 'C20.isolation',
                      '%s: while the first caller\'s admission was pending, %s (slow hook gave up waiting: %s)' % (
                          where, 'these were not served: %r' % {t: repr(results[t]) for t in held_up}
                          if held_up else 'the others were served only afterwards', state['waited_out']), case)
        return
    want = ('rejected', 2, 1, 1) if refuse_slow else 0
    if results.get('SLOWCALLER') != want:
        res.violation('healthy-association-disturbed:slow-admission', 'C20.isolation',
                      '%s: the slow caller got %r' % (where, results.get('SLOWCALLER')), case)
