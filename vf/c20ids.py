"""C20 (c) - the convenience API, observed on the wire.

Several threads call ``pynetdicom2.c_find`` repeatedly against a reference peer
that records, for every association, the calling AE title of the request and the
Message ID of the C-FIND-RQ together with the caller's tag (carried in the
query).  Within one thread the ids must be unique (and, as the counter is per
thread, consecutive), whatever the other threads do; and every association
carries the local AE title given to *that* call - a thread that is re-used for
another query, or has two queries open at once, keeps them apart.
"""
from __future__ import annotations

import threading

from . import refcodec as R, tcpnet, svc


def run(res, seed, nthreads=6, per=5):
    import pydicom
    import pynetdicom2
    from pynetdicom2 import dsutils
    seen = []
    lock = threading.Lock()

    def handler(peer):
        rq = peer.accept(max_len=16384)
        ctx, cmd, data, lengths, problems = peer.recv_dimse()
        ts = peer.contexts[ctx][1]
        from pydicom import uid
        u = uid.UID(ts)
        q = dsutils.decode(data, u.is_implicit_VR, u.is_little_endian)
        with lock:
            seen.append((str(q.PatientID), cmd.get(R.TAG_MESSAGE_ID), str(q.PatientName),
                         rq['calling'].strip(b' \0').decode()))
        if str(q.PatientName).endswith('X'):
            # this query fails: the peer aborts instead of answering
            peer.abort(2, 0)
            return
        peer.send_dimse(ctx, {R.TAG_AFFECTED_SOP_CLASS: svc.FIND, R.TAG_COMMAND_FIELD: 0x8020,
                              R.TAG_MESSAGE_ID_RSP: cmd.get(R.TAG_MESSAGE_ID), R.TAG_STATUS: 0})
        nxt = peer.recv_pdu()
        if nxt['type'] == 5:
            peer.send_pdu({'type': 6})

    net = tcpnet.Net(seed=seed)
    errors = []
    with tcpnet.instrument(net):
        srv = tcpnet.PeerServer(handler, timeout=10.0)
        try:
            remote = {'aet': 'IDPEER', 'address': '127.0.0.1', 'port': srv.port}
            start = threading.Barrier(nthreads)

            def query(t, title):
                q = pydicom.Dataset()
                q.PatientID = 'T%d' % t
                q.PatientName = title          # the title this call was given, carried in the query
                q.QueryRetrieveLevel = 'PATIENT'
                return q

            def worker(t):
                try:
                    start.wait(10)
                    for k in range(per):
                        # odd threads use a new local AE title for every call
                        title = 'IDSCU%d' % t if t % 2 == 0 else 'IDSCU%d-%d' % (t, k)
                        if t % 4 == 3 and k == per - 1:
                            # two queries of one thread open at the same time
                            outer = pynetdicom2.c_find(remote, title, query(t, title))
                            first = next(outer, None)
                            list(pynetdicom2.c_find(remote, title + 'N', query(t, title + 'N')))
                            list(outer)
                        elif t % 4 == 1 and k == 2:
                            # a query that ends with an error (its id has been on the wire all the same)
                            from pynetdicom2 import exceptions
                            try:
                                list(pynetdicom2.c_find(remote, title[:14] + 'X', query(t, title[:14] + 'X')))
                                errors.append('the aborted query did not fail')
                            except exceptions.NetDICOMError:
                                pass
                        elif t % 4 == 2 and k % 2 == 0:
                            # the call is made from a copied execution context (what an asyncio task or
                            # an event-loop callback of this thread does); it is still this thread's call
                            import contextvars
                            contextvars.copy_context().run(
                                lambda: list(pynetdicom2.c_find(remote, title, query(t, title))))
                        elif t % 4 == 2 and k == 1:
                            import asyncio

                            async def task():
                                return list(pynetdicom2.c_find(remote, title, query(t, title)))

                            async def main():
                                return await asyncio.create_task(task())
                            asyncio.run(main())
                        else:
                            list(pynetdicom2.c_find(remote, title, query(t, title)))
                except Exception as exc:
                    errors.append('%s: %s' % (type(exc).__name__, exc))
            threads = [threading.Thread(target=worker, args=(t,), daemon=True) for t in range(nthreads)]
            for t in threads:
                t.start()
            for t in threads:
                t.join(60)
        finally:
            srv.close()
    tcpnet.wait_quiet(0, 3.0)
    case = {'msg_id': True, 'seed': seed, 'via': 'c_find'}
    res.count('oracle.msg-id-on-the-wire')
    if errors or srv.errors:
        res.inconclusive.append('message-id workload over c_find failed: %r %r' % (errors[:2], srv.errors[:1]))
        return
    by_thread = {}
    for tag, mid, given, calling in seen:
        by_thread.setdefault(tag, []).append(mid)
    res.sample({'msg_ids_on_the_wire': {k: v for k, v in sorted(by_thread.items())[:3]},
                'calling_titles': sorted(set(s[3] for s in seen))[:8]}, limit=5)
    want = sorted(per + (1 if t % 4 == 3 else 0) for t in range(nthreads))
    if sorted(len(v) for v in by_thread.values()) != want:
        res.inconclusive.append('message-id workload: %r requests seen' % {k: len(v) for k, v in by_thread.items()})
        return
    for tag, ids in sorted(by_thread.items()):
        if len(set(ids)) != len(ids):
            res.violation('message-id-repeated-in-thread', 'C20.msg-id',
                          'c_find calls of thread %s carried message ids %r' % (tag, ids), case)
        elif sorted(ids) != list(range(min(ids), min(ids) + len(ids))):
            res.violation('message-id-sequence-influenced-by-other-threads', 'C20.msg-id',
                          'c_find calls of thread %s carried message ids %r' % (tag, ids), case)
    res.count('oracle.local-title-per-call', len(seen))
    wrong = [(tag, given, calling) for tag, mid, given, calling in seen if given != calling]
    if wrong:
        res.violation('association-with-another-calls-parameters', 'C20.isolation',
                      'c_find of thread %s was given local AE title %r, its association request carried %r '
                      '(%d such calls)' % (wrong[0] + (len(wrong),)), case)
