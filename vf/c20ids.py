"""C20 (c) - message ids handed out by the convenience API, observed on the wire.

Several threads call ``pynetdicom2.c_find`` repeatedly against a reference peer
that records the Message ID of every C-FIND-RQ together with the caller's tag
(carried in the query).  Within one thread the ids must be unique (and, as the
counter is per thread, consecutive), whatever the other threads do.
"""
from __future__ import annotations

import threading

from . import refcodec as R, tcpnet, svc


def run(res, seed, nthreads=6, per=5):
    import pydicom
    import pynetdicom2
    from pynetdicom2 import dsutils
    seen = []
    lock = threading.Lock()

    def handler(peer):
        peer.accept(max_len=16384)
        ctx, cmd, data, lengths, problems = peer.recv_dimse()
        ts = peer.contexts[ctx][1]
        from pydicom import uid
        u = uid.UID(ts)
        q = dsutils.decode(data, u.is_implicit_VR, u.is_little_endian)
        with lock:
            seen.append((str(q.PatientID), cmd.get(R.TAG_MESSAGE_ID)))
        peer.send_dimse(ctx, {R.TAG_AFFECTED_SOP_CLASS: svc.FIND, R.TAG_COMMAND_FIELD: 0x8020,
                              R.TAG_MESSAGE_ID_RSP: cmd.get(R.TAG_MESSAGE_ID), R.TAG_STATUS: 0})
        nxt = peer.recv_pdu()
        if nxt['type'] == 5:
            peer.send_pdu({'type': 6})

    net = tcpnet.Net(seed=seed)
    errors = []
    with tcpnet.instrument(net):
        srv = tcpnet.PeerServer(handler, timeout=10.0)
        try:
            remote = {'aet': 'IDPEER', 'address': '127.0.0.1', 'port': srv.port}
            start = threading.Barrier(nthreads)

            def worker(t):
                try:
                    start.wait(10)
                    for k in range(per):
                        q = pydicom.Dataset()
                        q.PatientID = 'T%d' % t
                        q.QueryRetrieveLevel = 'PATIENT'
                        list(pynetdicom2.c_find(remote, 'IDSCU%d' % t, q))
                except Exception as exc:
                    errors.append('%s: %s' % (type(exc).__name__, exc))
            threads = [threading.Thread(target=worker, args=(t,), daemon=True) for t in range(nthreads)]
            for t in threads:
                t.start()
            for t in threads:
                t.join(60)
        finally:
            srv.close()
    tcpnet.wait_quiet(0, 3.0)
    case = {'msg_id': True, 'seed': seed, 'via': 'c_find'}
    res.count('oracle.msg-id-on-the-wire')
    if errors or srv.errors:
        res.inconclusive.append('message-id workload over c_find failed: %r %r' % (errors[:2], srv.errors[:1]))
        return
    by_thread = {}
    for tag, mid in seen:
        by_thread.setdefault(tag, []).append(mid)
    res.sample({'msg_ids_on_the_wire': {k: v for k, v in sorted(by_thread.items())[:3]}}, limit=5)
    if sorted(len(v) for v in by_thread.values()) != [per] * nthreads:
        res.inconclusive.append('message-id workload: %r requests seen' % {k: len(v) for k, v in by_thread.items()})
        return
    for tag, ids in sorted(by_thread.items()):
        if len(set(ids)) != len(ids):
            res.violation('message-id-repeated-in-thread', 'C20.msg-id',
                          'c_find calls of thread %s carried message ids %r' % (tag, ids), case)
        elif ids != list(range(ids[0], ids[0] + len(ids))):
            res.violation('message-id-sequence-influenced-by-other-threads', 'C20.msg-id',
                          'c_find calls of thread %s carried message ids %r' % (tag, ids), case)
