"""Baton mode of the simulated transport: several real provider loops, each in
its own thread, but only the holder of a baton executes.  The baton changes
hands at the loops' synchronisation points (user-queue poll, select) under a
seeded scheduler, which gives *deterministic* interleaved stepping of several
providers inside one process - no real concurrency, every interleaving is a
function of the seed.

Used by C20 as a non-interference monitor: what each provider observes and
emits while interleaved with others must equal what it observes and emits when
run alone.
"""
from __future__ import annotations

import contextlib
import random
import threading

from pynetdicom2 import dulprovider, fsm

from . import simnet

_local = threading.local()


def current_sim():
    return getattr(_local, 'sim', None)


class MultiSelect(object):
    error = OSError

    def select(self, rlist, wlist, xlist, timeout=None):
        ready = []
        for s in rlist:
            if isinstance(s, simnet.FakeSocket):
                s.sim.tick('select')
                s.sim.yield_point()
                s.sim.on_select()
                if s.closed:
                    raise OSError(9, 'select on closed socket')
                if s.readable():
                    ready.append(s)
        return ready, list(wlist), []

    __call__ = select


class MultiTime(object):
    def time(self):
        sim = current_sim()
        return sim.now if sim is not None else 0.0

    __call__ = time

    def sleep(self, dt):
        sim = current_sim()
        if sim is not None:
            sim.now += max(dt, 0)


class MultiSocketModule(object):
    AF_INET = 2
    SOCK_STREAM = 1
    error = OSError
    timeout = TimeoutError

    def socket(self, *a, **kw):
        sim = current_sim()
        s = simnet.FakeSocket(sim, 'client')
        sim.sockets.append(s)
        return s

    def __call__(self, *a, **kw):
        return self.socket(*a, **kw)

    def __getattr__(self, name):
        import socket as real
        return getattr(real, name)


@contextlib.contextmanager
def patched_multi():
    saved = (dulprovider.select, dulprovider.time, fsm.socket)
    dulprovider.select = MultiSelect()
    dulprovider.time = MultiTime()
    fsm.socket = MultiSocketModule()
    try:
        yield
    finally:
        dulprovider.select, dulprovider.time, fsm.socket = saved


class BatonSim(simnet.Sim):
    """A Sim whose loop runs in its own thread and only while it holds the baton."""

    def __init__(self, group, index, *a, **kw):
        self.group = group
        self.index = index
        # construction patches the modules itself for a moment (single-sim style); the
        # group installs the multi-provider fakes only while it runs
        simnet.Sim.__init__(self, *a, **kw)

    def yield_point(self):
        self.group.maybe_switch(self.index)

    def on_user_poll(self):
        self.yield_point()
        return simnet.Sim.on_user_poll(self)

    def run_in_group(self):
        _local.sim = self
        self.group.wait_turn(self.index)
        try:
            if self.first_pending:
                nxt = self.peek_stimulus()
                if nxt is not None and nxt[0].startswith('bytes') and self.active_socket() is not None:
                    self.next_stimulus()
                    self.deliver_to_socket(nxt)
            try:
                self.provider.run()
                self.outcome = 'returned'
            except simnet.EndOfScript:
                self.outcome = 'end-of-script'
            except simnet.WouldBlockForever as exc:
                self.outcome = 'blocked'
                self.error = str(exc)
            except simnet.BudgetExceeded as exc:
                self.outcome = 'budget'
                self.error = str(exc)
            except BaseException as exc:
                self.outcome = 'raised'
                self.error = '%s: %s' % (type(exc).__name__, exc)
            self.final = self.snapshot_final()
        finally:
            self.group.finished(self.index)


class Group(object):
    """Seeded cooperative scheduler for K BatonSims."""

    def __init__(self, seed, switch_probability=0.5):
        self.rnd = random.Random(seed)
        self.p = switch_probability
        self.cond = threading.Condition()
        self.turn = 0
        self.alive = []
        self.sims = []
        self.switches = 0
        self.schedule = []          # sequence of sim indices that held the baton

    def add(self, *a, **kw):
        index = len(self.sims)
        sim = BatonSim(self, index, *a, **kw)
        self.sims.append(sim)
        self.alive.append(True)
        return sim

    def wait_turn(self, index):
        with self.cond:
            while self.turn != index:
                self.cond.wait(30)

    def maybe_switch(self, index):
        others = [i for i, a in enumerate(self.alive) if a and i != index]
        if not others or self.rnd.random() >= self.p:
            return
        nxt = self.rnd.choice(others)
        with self.cond:
            self.switches += 1
            self.schedule.append(nxt)
            self.turn = nxt
            self.cond.notify_all()
            while self.turn != index:
                self.cond.wait(30)

    def finished(self, index):
        with self.cond:
            self.alive[index] = False
            others = [i for i, a in enumerate(self.alive) if a]
            if others:
                self.turn = others[0]
                self.schedule.append(others[0])
            self.cond.notify_all()

    def run(self, timeout=60.0):
        with patched_multi():
            threads = [threading.Thread(target=s.run_in_group, daemon=True) for s in self.sims]
            for t in threads:
                t.start()
            for t in threads:
                t.join(timeout)
            hung = [i for i, t in enumerate(threads) if t.is_alive()]
        return hung
