"""C13 - endings through a failing send.

The peer has gone (reset / broken pipe) but the provider only finds out when it
writes: at every local step of every scenario the next ``sendall`` on the
transport raises ECONNRESET / EPIPE.  Whatever the step was, the association is
over: the provider must end idle with the transport closed, must not die, and a
user that had an association must be told.
"""
from __future__ import annotations

from . import convo, simnet


def cases(res):
    for name, (role, steps) in convo.corpus().items():
        for k, step in enumerate(steps):
            # local steps always write; a burst of the peer makes the provider write when it contains
            # something to be answered by an A-ABORT (the invalid-PDU conversations)
            if step[0] not in ('user', 'peer'):
                continue
            if step[0] == 'peer' and not name.startswith(('A12', 'A13', 'A14', 'R8')):
                continue
            for err in (BrokenPipeError, ConnectionResetError):
                case = {'kind': 'send-fails', 'scenario': name, 'point': [k, 0], 'error': err.__name__}
                part = list(steps[:k + 1])
                script = convo.build_script(role, part + [('time', 11.0), ('close',), ('time', 11.0)])
                sim = simnet.Sim(role, script)
                # arm the failure just before the local step that makes the provider write
                arm_at = len(convo.build_script(role, steps[:k]))
                orig_next = sim.next_stimulus

                def next_stimulus(sim=sim, arm_at=arm_at, orig_next=orig_next, err=err):
                    if sim.pos == arm_at:
                        for s in sim.sockets:
                            s.send_error = err
                    return orig_next()
                sim.next_stimulus = next_stimulus
                sim.run()
                res.evaluations += 1
                res.distinct.add('send-fails|%s|%d|%s' % (name, k, err.__name__))
                res.count('oracle.send-failure')
                where = '%s: %s on the write of step %d (%s)' % (
                    name, err.__name__, k, step[1] if step[0] == 'user' else 'answer to the peer\'s burst')
                if sim.outcome != 'end-of-script':
                    key = {'raised': 'loop-died', 'blocked': 'blocking-recv',
                           'budget': 'spinning'}.get(sim.outcome, 'run-' + str(sim.outcome))
                    res.violation('%s:send-fails' % key, 'C13.send-failure',
                                  '%s: run() %s: %s (state Sta%d, closed=%s)' % (
                                      where, sim.outcome, sim.error, sim.state() + 1, sim.all_closed()), case)
                    continue
                if sim.state() != 0 or not sim.all_closed():
                    res.violation('not-idle-closed:send-fails', 'C13.send-failure',
                                  '%s: final state Sta%d, closed=%r' % (where, sim.state() + 1,
                                                                        sim.all_closed()), case)
                kinds = [i[0] for i in sim.indications]
                if kinds.count('A-ABORT') > 1:
                    res.violation('user-told-twice:send-fails', 'C13.send-failure',
                                  '%s: the association was reported aborted %d times: %r' % (
                                      where, kinds.count('A-ABORT'), kinds), case)
                if sim.state() == 0 and sim.timer_running:
                    res.violation('timer-left-running:send-fails', 'C13.send-failure',
                                  '%s: idle again, ARTIM still running' % where, case)
                user_syms = [s[1] for s in part if s[0] == 'user']
                told_start = role == 'requestor' or 'A-ASSOCIATE-RQ' in kinds
                user_ended = any(s in ('uRJ', 'uABORT') for s in user_syms) or \
                    ('uRELRP' in user_syms and 'A-RELEASE-RQ' in kinds)
                told_end = any(x in ('A-ABORT', 'A-ASSOCIATE-RJ', 'A-RELEASE-RP') for x in kinds)
                if told_start and not user_ended and not told_end:
                    res.violation('user-not-told-association-gone:send-fails', 'C13.send-failure',
                                  '%s: indications %r' % (where, kinds), case)


def connect_failures(res):
    """The transport connection cannot be opened at all - for every reason a connect() can fail
    with, not only "connection refused": the requesting user is told, the provider ends idle with
    nothing left open, and it does not die."""
    import errno
    import socket
    from . import fixtures as F
    errors = [ConnectionRefusedError(errno.ECONNREFUSED, 'Connection refused'),
              socket.gaierror(-2, 'Name or service not known'),
              OSError(errno.ENETUNREACH, 'Network is unreachable'),
              OSError(errno.EHOSTUNREACH, 'No route to host'),
              OSError(errno.EADDRNOTAVAIL, 'Cannot assign requested address'),
              PermissionError(errno.EACCES, 'Permission denied'),
              TimeoutError(errno.ETIMEDOUT, 'Connection timed out'),
              socket.timeout('timed out'),
              OSError(errno.EMFILE, 'Too many open files')]
    for err in errors:
        label = '%s(%s)' % (type(err).__name__, getattr(err, 'errno', None))
        case = {'kind': 'send-fails', 'scenario': 'connect', 'error': label}
        obj, _ = F.user_primitive('uRQ')
        sim = simnet.Sim('requestor', [('user', obj), ('time', 11.0)])
        sim.connect_error = err
        sim.run()
        res.evaluations += 1
        res.distinct.add('connect-fails|' + label)
        res.count('oracle.connect-failure')
        where = 'connect() fails with %s' % label
        if sim.outcome != 'end-of-script':
            key = {'raised': 'loop-died', 'blocked': 'blocking-recv', 'budget': 'spinning'}.get(
                sim.outcome, 'run-' + str(sim.outcome))
            res.violation('%s:connect-fails' % key, 'C13.send-failure', '%s: run() %s: %s' % (
                where, sim.outcome, sim.error), case)
            continue
        open_socks = [s for s in sim.sockets if not s.closed]
        if sim.state() != 0 or open_socks:
            res.violation('not-idle-closed:connect-fails', 'C13.send-failure',
                          '%s: final state Sta%d, %d socket(s) left open' % (where, sim.state() + 1,
                                                                            len(open_socks)), case)
        if not any(i[0] == 'A-ABORT' for i in sim.indications):
            res.violation('user-not-told-association-gone:connect-fails', 'C13.send-failure',
                          '%s: indications %r' % (where, sim.indications), case)
