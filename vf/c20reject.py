"""C20 - simultaneous refusals.

N requestors ask one server entity for an association at the same moment; the
application refuses some of them, each with its own (result, source, reason)
chosen from the calling AE title, and serves the others.  Every requestor must
get *its own* answer: the refused ones their own triple (in the error and in the
A-ASSOCIATE-RJ on their own connection), the others a working association whose
acceptor saw their own calling AE title.
"""
from __future__ import annotations

import threading
import time

from . import svc, tcpnet
from .common import rng


def run_round(res, case, attempt=0):
    from pynetdicom2 import applicationentity, exceptions, sopclass
    k, n, seed = case['round'], case['n'], case['seed']
    r = rng(seed, 'c20-reject', k)
    jitter = r.choice([0.0, 0.001]) if not attempt else 0.0
    net = tcpnet.Net(seed=seed * 211 + k, jitter=jitter)
    if not attempt:
        res.evaluations += 1
    where = 'refusal round %d: %d simultaneous requestors, jitter=%s' % (k, n, jitter)
    triples = {}
    for c in range(n):
        if c % 2 == 0 or r.random() < 0.3:
            triples['RJ%dX%d' % (k % 1000, c)] = (1 + c % 2, 1 + c % 3, (c * 7 + k) % 256)
    served_titles = []
    lock = threading.Lock()

    class Server(tcpnet.TapServerMixin, applicationentity.AE):
        def on_association_request(self, asce, assoc):
            title = assoc.calling_ae_title
            if isinstance(title, bytes):
                title = title.decode()
            title = title.strip(' \0')
            if title in triples:
                raise exceptions.AssociationRejectedError(*triples[title])
            with lock:
                served_titles.append(title)

    results = [None] * n
    start = threading.Barrier(n)
    import socket as _socket
    default_timeout_before = _socket.getdefaulttimeout()
    dead = _socket.socket()
    dead.bind(('127.0.0.1', 0))
    dead_port = dead.getsockname()[1]
    dead.close()                      # nobody listens there any more
    unreachable = {}

    def lost_client():
        # a requestor of the same process whose destination is down
        ae = applicationentity.ClientAE('LOST', max_pdu_length=16384)
        ae.timeout = 8
        ae.add_scu(sopclass.verification_scu)
        try:
            with ae.request_association({'aet': 'NOBODY', 'address': '127.0.0.1', 'port': dead_port}):
                unreachable['error'] = None
        except Exception as exc:
            unreachable['error'] = exc

    def client(c, port):
        title = 'RJ%dX%d' % (k % 1000, c)
        out = {'title': title, 'error': None, 'echo': None}
        results[c] = out
        ae = applicationentity.ClientAE(title, max_pdu_length=16384)
        ae.timeout = 8
        ae.add_scu(sopclass.verification_scu)
        try:
            start.wait(10)
            with ae.request_association({'aet': 'SERVER', 'address': '127.0.0.1', 'port': port}) as assoc:
                out['echo'] = int(assoc.get_scu(svc.VERIFICATION)(1))
        except Exception as exc:
            out['error'] = exc

    with tcpnet.instrument(net):
        server = Server('SERVER', 0, max_pdu_length=16384)
        server.net = net
        server.timeout = 8
        server.add_scp(sopclass.verification_scp)
        with tcpnet.serving(server):
            threads = [threading.Thread(target=client, args=(c, server.port), daemon=True) for c in range(n)]
            threads.append(threading.Thread(target=lost_client, daemon=True))
            t0 = time.time()
            for t in threads:
                t.start()
            hung = False
            for t in threads:
                t.join(max(40 - (time.time() - t0), 1))
                hung = hung or t.is_alive()
            tcpnet.wait_quiet(0, 5.0)
            handler_errors = [e for e in getattr(server, 'handler_errors', [])
                              if not isinstance(e, exceptions.AssociationRejectedError)]
    sig = net.signature()
    res.distinct.add(sig)
    if hung or any(tcpnet.is_timeout((o or {}).get('error')) for o in results):
        if attempt < 2:
            res.count('flaky-timeouts')
            return run_round(res, case, attempt + 1)
        res.inconclusive.append('%s: time-outs persist' % where)
        return
    res.count('oracle.simultaneous-refusals')
    res.sample({'case': case, 'refused': len(triples), 'served': len(served_titles), 'signature': sig}, limit=3)
    # the A-ASSOCIATE-RJ each requestor's own connection carried
    for c, out in enumerate(results):
        title = out['title']
        if title in triples:
            want = triples[title]
            err = out['error']
            if not isinstance(err, exceptions.AssociationRejectedError):
                res.violation('refused-requestor-not-told', 'C20.isolation', '%s: %s got %s: %s' % (
                    where, title, type(err).__name__, err), case)
            elif (err.result, err.source, err.diagnostic) != want:
                res.violation('rejection-of-another-association', 'C20.isolation',
                              '%s: %s was refused with %r, its error carries %r' % (
                                  where, title, want, (err.result, err.source, err.diagnostic)), case)
        else:
            if out['error'] is not None or out['echo'] != 0:
                res.violation('healthy-association-disturbed', 'C20.isolation',
                              '%s: %s (not refused) got %s: %s, echo %r' % (
                                  where, title, type(out['error']).__name__, out['error'], out['echo']), case)
    want_served = sorted(o['title'] for o in results if o['title'] not in triples)
    if sorted(served_titles) != want_served:
        res.violation('negotiated-parameters-mixed-up', 'C20.isolation',
                      '%s: the acceptors saw calling titles %r, the accepted requestors were %r' % (
                          where, sorted(served_titles)[:6], want_served[:6]), case)
    if handler_errors:
        res.violation('server-handler-error', 'C20.server', '%s: %s: %s' % (
            where, type(handler_errors[0]).__name__, handler_errors[0]), case)
    # one association could not even be opened: that is its own affair - nothing process-wide that
    # every other (later) socket inherits may be left changed by it
    res.count('oracle.failed-connect-leaves-no-trace')
    if 'error' in unreachable and unreachable['error'] is None:
        res.inconclusive.append('%s: the dead port answered' % where)
    if _socket.getdefaulttimeout() != default_timeout_before:
        res.violation('process-wide-socket-default-left-changed', 'C20.isolation',
                      '%s: socket.getdefaulttimeout() was %r before the round and is %r after it (one requestor '
                      'could not reach its destination): every socket created from now on inherits it' % (
                          where, default_timeout_before, _socket.getdefaulttimeout()), case)
        _socket.setdefaulttimeout(default_timeout_before)
