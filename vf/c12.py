"""C12 - no byte sequence from the peer can crash or hang the provider.

The real provider loop is brought to each protocol state by a valid prefix
(simulated transport), then fed a structure-aware mutant of valid PDU streams,
then the peer closes (or resets) and virtual time passes ARTIM.  Monitors:
run() neither raises nor blocks nor spins; the connection ends closed and the
provider idle; a user that had been told of the association is told it is
gone; an unrecognised / undecodable PDU is answered by an A-ABORT (plus a
provider abort indication when an association existed for the user); whatever
the library writes parses with the reference parser.
"""
from __future__ import annotations

from . import c05, fixtures as F, libmap, mutate, refcodec, simnet
from .common import Result, rng

LEVEL = 'fault_enumeration'
ENGINE = 'simnet+mutate'
TECHNIQUE = ('hostile-input workload (structure-aware mutation of valid PDU streams) on the real provider loop under '
             'a simulated transport, with liveness restated as bounded loop steps and end-state monitors')
LEVEL_TEXT = ('each of 10 reachable protocol situations x thousands of seeded mutants of 12 mutation classes x 3 '
              'delivery modes x close/reset endings is executed on the real loop; faults are enumerated by class, '
              'inputs within a class are sampled')
LEVEL_NOTE = ('"cannot be decoded" is decided by calling the library\'s own decode() on the framed PDU; DIMSE-level '
              'garbage inside a decodable P-DATA-TF may either be ignored or abort the association, both are '
              'accepted as orderly; simulated transport as in C05')
RULE = ('case = (protocol situation, mutant stream, delivery mode, ending); distinct = (situation, mutation-class '
        'label, delivery mode, ending, outcome signature); non-trivial = the stream differs from a valid PDU '
        'sequence')
ASSUMPTIONS = ['peer eventually closes or resets the connection (final-state monitors are evaluated after that)',
               'bounded progress: at most 400 loop operations between synchronisation points']
REQUIRED = ['oracle.no-crash', 'oracle.final-state', 'oracle.user-told', 'oracle.invalid-pdu-aborted',
            'monitor.wellformed-output', 'oracle.silence',
            'oracle.pipelined-then-invalid', 'oracle.non-ascii-title-answered']

SITUATIONS = {
    'awaiting-request': ('acceptor', []),
    'awaiting-local-response': ('acceptor', ['pRQ']),
    'awaiting-reply': ('requestor', []),
    'established-acceptor': ('acceptor', ['pRQ', 'uAC']),
    'established-requestor': ('requestor', ['pAC']),
    'established-mid-message': ('acceptor', ['pRQ', 'uAC', 'pPART']),
    'releasing-local': ('requestor', ['pAC', 'uRELRQ']),
    'releasing-peer': ('acceptor', ['pRQ', 'uAC', 'pRELRQ']),
    'awaiting-close-rejected': ('acceptor', ['pRQ', 'uRJ']),
    'awaiting-close-aborted': ('requestor', ['pAC', 'uABORT']),
}
N = {"quick": 1500, "thorough": 300000}     # mutants per situation
MODES = ['framed', 'whole', 'random', 'pending']


def exhaustive(tier):
    return False


def plan(tier, seed):
    specs = []
    n = N[tier]
    parts = 2 if tier == 'quick' else 8
    for name in SITUATIONS:
        for p in range(parts):
            specs.append({'name': name, 'lo': p * n // parts, 'hi': (p + 1) * n // parts})
    for k in range(3 if tier == 'quick' else 18):
        specs.append({'name': 'pipeline', 'index': k})
    for k in range(8 if tier == 'quick' else 32):
        specs.append({'name': 'pipeline', 'index': k, 'title': True})
    return specs


def run_shard(spec, tier, seed):
    res = Result()
    if spec['name'] == 'pipeline':
        from . import c12pipe
        if spec.get('title'):
            c12pipe.run_title_case(res, {'index': spec['index'], 'seed': seed})
        else:
            c12pipe.run_case(res, {'index': spec['index'], 'seed': seed})
        return res
    for i in range(spec['lo'], spec['hi']):
        run_case(res, {'situation': spec['name'], 'index': i, 'seed': seed})
    return res


def replay(case):
    res = Result()
    if case.get('pipeline'):
        from . import c12pipe
        if case.get('title'):
            c12pipe.run_title_case(res, {'index': case['index'], 'seed': case['seed']})
        else:
            c12pipe.run_case(res, {'index': case['index'], 'seed': case['seed']})
        return res
    run_case(res, case, verbose=True)
    return res


def file_cb():
    """File-backed reception through the real AEBase.get_file (temporary file)."""
    from pynetdicom2 import applicationentity
    ae = applicationentity.ClientAE('FUZZ')
    return ae.get_file


CPU_BUDGET = 20      # seconds of this process's own CPU time for one case (normally milliseconds)


class _Stalled(BaseException):
    pass


def cpu_bounded(fn, seconds):
    """Run fn() under a budget of process CPU time (not wall clock: a loaded machine does not
    count).  -> True when the budget ran out."""
    import signal

    def on_timer(signum, frame):
        raise _Stalled()
    try:
        old = signal.signal(signal.SIGVTALRM, on_timer)
    except ValueError:          # not in the main thread: no budget
        fn()
        return False
    signal.setitimer(signal.ITIMER_VIRTUAL, seconds)
    try:
        fn()
        return False
    except _Stalled:
        return True
    finally:
        signal.setitimer(signal.ITIMER_VIRTUAL, 0)
        signal.signal(signal.SIGVTALRM, old)


def classify(frame):
    if not frame or frame[0] not in libmap.PDU_CLASSES:
        return 'unrecognised'
    try:
        libmap.PDU_CLASSES[frame[0]].decode(frame)
    except Exception:
        return 'undecodable'
    return 'decodes'


def run_case(res, case, verbose=False):
    name, index, seed = case['situation'], case['index'], case['seed']
    role, prefix = SITUATIONS[name]
    r = rng(seed, 'c12', name, index)
    label, frames = mutate.mutant_stream(r)
    stream = b''.join(frames)
    mode = MODES[index % 4]
    if mode == 'pending' and (role != 'acceptor' or prefix):
        mode = 'whole'      # only an acceptor can find bytes waiting when it starts
    ending = 'reset' if r.random() < 0.25 else 'close'
    # a peer that just stops talking: the connection is closed only later
    silent = r.random() < 0.2
    stop_after = r.random() < 0.3
    use_file = r.random() < 0.3 or label.startswith('store-in-progress')
    framed, rest = refcodec.split_stream(stream)
    if mode == 'framed':
        segments = list(framed) + ([rest] if rest else [])
    elif mode in ('whole', 'pending'):
        segments = [stream] if stream else []
    else:
        cuts = sorted(set(r.randrange(1, len(stream)) for _ in range(r.choice([1, 2, 4, 9])))) \
            if len(stream) > 1 else []
        segments = [stream[a:b] for a, b in zip([0] + cuts, cuts + [len(stream)])]
    script, _ = c05.build_script(role, prefix)
    nprefix = len(script)
    for seg in segments:
        if seg:
            script.append(('bytes', seg))
    silence_at = None
    if silent:
        silence_at = len(script)
        script.append(('time', 11.0))
    script.append((ending,))
    script.append(('time', 11.0))
    if stop_after:
        script.append(('stop',))
    kwargs = {}
    if use_file:
        from pynetdicom2 import asceprovider
        from pydicom import uid
        kwargs = {'store_in_file': {F.CT_STORAGE.decode()}, 'get_file_cb': file_cb(),
                  'accepted_contexts': {
                      1: asceprovider.PContextDef(1, uid.UID(F.VERIFICATION.decode()),
                                                  uid.ImplicitVRLittleEndian),
                      3: asceprovider.PContextDef(3, uid.UID(F.CT_STORAGE.decode()),
                                                  uid.ImplicitVRLittleEndian)}}
    sim = simnet.Sim(role, script, first_pending=(mode == 'pending'), **kwargs)
    stalled = cpu_bounded(sim.run, CPU_BUDGET)
    res.evaluations += 1
    case = dict(case, label=label, mode=mode, ending=ending, silent=silent)
    res.distinct.add('%s|%s|%s|%s|%s|%s' % (name, label, mode, ending, sim.outcome,
                                            tuple(w[0] for w in sim.wire[-2:])))
    res.sample({'case': case, 'stream_hex': stream[:80].hex(), 'stream_len': len(stream),
                'wire': [w[0] for w in sim.wire], 'indications': [i[0] for i in sim.indications],
                'outcome': sim.outcome}, limit=5)
    if verbose:
        print('script', [(s[0], len(s[1]) if s[0] == 'bytes' else s[1:]) for s in script])
        print('wire', sim.wire, 'ind', sim.indications, 'outcome', sim.outcome, sim.error)
        print(getattr(sim, 'error_tb', ''))

    # 1. the loop neither dies nor hangs
    res.count('oracle.no-crash')
    if stalled:
        res.violation('processing-stalls', 'C12.no-crash',
                      '%s, mutant %s (%s, %s): %d bytes of input kept the provider busy for more than %d s of '
                      'CPU time' % (name, label, mode, ending, len(stream), CPU_BUDGET), case)
        return
    want_outcome = 'returned' if stop_after else 'end-of-script'
    if sim.outcome != want_outcome:
        key = {'raised': 'loop-died', 'blocked': 'blocking-recv', 'budget': 'spinning'}.get(
            sim.outcome, 'run-' + str(sim.outcome))
        exc = (sim.error or '').split(':')[0]
        res.violation('%s:%s' % (key, exc) if key == 'loop-died' else key, 'C12.no-crash',
                      '%s, mutant %s (%s, %s): run() %s: %s' % (name, label, mode, ending,
                                                                sim.outcome, sim.error), case)
        return
    # 1b. silence: a provider waiting for the peer's request or for the peer to close must not
    # wait for ever (ARTIM); everywhere else silence alone ends nothing by itself
    if silence_at is not None and silence_at not in sim.skipped:
        after = [t for t in sim.trace if t['pos'] >= silence_at + 1]
        if after:
            res.count('oracle.silence')
            st = after[0]
            if st['state'] in (1, 12) and not st['closed']:
                res.violation('waits-for-ever-on-silent-peer', 'C12.silence',
                              '%s, mutant %s (%s): 11 s after the last byte still in Sta%d with the connection '
                              'open' % (name, label, mode, st['state'] + 1), case)
    # 2. after the peer closed: idle and closed
    res.count('oracle.final-state')
    if sim.state() != 0 or not sim.all_closed():
        res.violation('not-idle-closed-after-peer-close', 'C12.final-state',
                      '%s, mutant %s (%s, %s): final state Sta%d, connection closed=%r' % (
                          name, label, mode, ending, sim.state() + 1, sim.all_closed()), case)
    # 3. a user that was told of the association is told it is gone
    res.count('oracle.user-told')
    kinds = [i[0] for i in sim.indications]
    told_start = role == 'requestor' or 'A-ASSOCIATE-RQ' in kinds
    user_ended = any(sym in ('uRJ', 'uABORT') for sym in prefix)
    told_end = any(k in ('A-ABORT', 'A-ASSOCIATE-RJ', 'A-RELEASE-RP') for k in kinds) or \
        ('A-RELEASE-RQ' in kinds and 'uRELRP' in prefix)
    # a release indicated to the user and never answered still ends with an abort indication
    if told_start and not user_ended and not told_end:
        res.violation('user-not-told-association-gone', 'C12.user-told',
                      '%s, mutant %s (%s, %s): indications %r contain no abort/release/reject' % (
                          name, label, mode, ending, sim.indications), case)
    # 4. invalid PDU -> A-ABORT (+ A-P-ABORT indication when an association existed)
    if mode == 'framed':
        for k, frame in enumerate(framed):
            pos = nprefix + k
            if pos in sim.skipped:
                break
            cls = classify(frame)
            before = [s for s in sim.trace if s['pos'] <= pos]
            after = [s for s in sim.trace if s['pos'] >= pos + 1]
            if not before:
                break
            b = before[-1]
            a = after[0] if after else {'wire_n': len(sim.wire), 'ind_n': len(sim.indications)}
            if b['closed']:
                break
            if cls == 'decodes':
                continue
            res.count('oracle.invalid-pdu-aborted')
            new_wire = sim.wire[b['wire_n']:a['wire_n']]
            new_ind = sim.indications[b['ind_n']:a['ind_n']]
            if not any(w[0] == 'A-ABORT' for w in new_wire):
                res.violation('invalid-pdu-not-answered-by-abort', 'C12.invalid-pdu',
                              '%s, mutant %s: %s PDU (frame %d, type %02XH) in Sta%d answered by %r' % (
                                  name, label, cls, k, frame[0] if frame else -1, b['state'] + 1,
                                  new_wire), case)
            elif b['state'] + 1 in (3, 5, 6, 7, 8, 9, 10, 11, 12) and not any(
                    i[0] == 'A-ABORT' for i in new_ind):
                res.violation('invalid-pdu-no-abort-indication', 'C12.invalid-pdu',
                              '%s, mutant %s: %s PDU in Sta%d: no provider-abort indication (%r)' % (
                                  name, label, cls, b['state'] + 1, new_ind), case)
            break      # only the first invalid PDU is judged (later ones meet Sta13)
    # 5. everything the library wrote is a well-formed PDU; P-DATA discipline; timer/idle flags
    res.count('monitor.wellformed-output')
    c05.named_assertions(res, case, sim, 'C12')
