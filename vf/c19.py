"""C19 - retrieve (C-GET / C-MOVE): each sub-operation exactly once, true
progress, exactly one final response.

C-GET user: the real ``qr_get_scu`` generator runs on the stub provider (E4)
against a scripted peer that interleaves pending C-GET-RSPs with C-STORE-RQs.
C-MOVE provider: the real ``qr_move_scp`` runs with a recording application
entity; its sub-association (real ``request_association`` / ``storage_scu``)
talks to a cooperative scripted peer that records every C-STORE it receives
and the destination it was opened to.  Exactly-once / order / progress checkers
run over the recorded histories.
"""
from __future__ import annotations

from . import refcodec as R, stubdul, svc
from .common import Result, rng, chunked

LEVEL = 'exploration'
ENGINE = 'stubdul+refcodec'
TECHNIQUE = ('offline exactly-once / order / progress checkers over histories recorded at the service boundary (messages '
             'passed to send(), stores received by the sub-association peer, items yielded), real service code on a '
             'stub provider; sampled end-to-end over TCP in the C20/C16 engines')
LEVEL_TEXT = ('sub-operation counts 0..30 x outcome patterns x interleavings of pending responses x ids; unique instance '
              'UIDs make every history unambiguous; seeded sample of an unbounded space')
LEVEL_NOTE = ('progress accepts either completed = k or completed + failed + warning = k after k sub-operations '
              '(the property counts "performed"); the stub provider materialises fragments at send time')
RULE = ('case = (operation, number of sub-operations, outcome pattern, pending-response positions, ids); distinct = '
        '(operation, count, outcome pattern); non-trivial = at least one sub-operation or the empty case itself')
ASSUMPTIONS = ['every instance has a unique SOP Instance UID, so stores and yields identify their sub-operation']
REQUIRED = ['oracle.get-exactly-once', 'oracle.get-yield-order', 'oracle.move-exactly-once',
            'oracle.move-progress', 'oracle.move-one-final', 'oracle.interleaved-retrieves']

N = {'quick': 1600, 'thorough': 200000}


OPTIMIZED_SAMPLE = 1     # the first shard once more under python -O (vf/runner.py)


def exhaustive(tier):
    return False


NTCP = {'quick': 64, 'thorough': 1600}


def plan(tier, seed):
    specs = [{'lo': p[0], 'hi': p[-1] + 1} for p in chunked(range(N[tier]), 16) if p]
    specs += [{'tcp': True, 'lo': p[0], 'hi': p[-1] + 1} for p in chunked(range(NTCP[tier]), 8) if p]
    specs.append({'pair': True, 'n': 40 if tier == 'quick' else 2000})
    return specs


def run_shard(spec, tier, seed):
    res = Result()
    if spec.get('pair'):
        from . import c19pair
        c19pair.run(res, seed, spec['n'])
        return res
    if spec.get('tcp'):
        for i in range(spec['lo'], spec['hi']):
            tcp_case(res, {'op': 'tcp', 'index': i, 'seed': seed})
        return res
    for i in range(spec['lo'], spec['hi']):
        if i % 2:
            get_case(res, {'op': 'get', 'index': i, 'seed': seed})
        else:
            move_case(res, {'op': 'move', 'index': i, 'seed': seed})
    return res


def replay(case):
    res = Result()
    if case.get('pair'):
        from . import c19pair
        c19pair.run(res, case.get('seed', 0), case.get('round', 0) + 1)
        return res
    if case['op'] == 'tcp':
        tcp_case(res, case)
        return res
    (get_case if case['op'] == 'get' else move_case)(res, case)
    return res


def count_for(r, i):
    if i < 124:
        return (i // 2) % 31          # every count 0..30 at least once per run
    return r.choice([0, 1, 2, 3, 5, 8, 13, 30])


# --------------------------------------------------------------------------
# C-GET user
# --------------------------------------------------------------------------
def get_case(res, case):
    from pynetdicom2 import applicationentity, asceprovider, exceptions, sopclass, statuses, dsutils
    import pydicom
    i, seed = case['index'], case['seed']
    r = rng(seed, 'c19-get', i)
    n = count_for(r, i)
    outcomes = [r.choice([0x0000, 0x0000, 0xB000, 0xA700, 'raise']) for _ in range(n)]
    in_file = r.random() < 0.4
    get_ctx = r.choice([1, 3, 77, 255])
    get_id = r.choice([0, 1, 0x7FFF, 0xFFFF, r.randrange(65536)])
    r2 = rng(seed, 'c19-get-config', i)
    two_contexts = r2.random() < 0.3
    file_start = r2.choice([0, 0, 512, 7])
    switch_at = r2.randrange(n) if n > 1 and not in_file and r2.random() < 0.25 else None
    if switch_at is not None:
        res.count('sim.get-entity-reconfigured-meanwhile')
    res.evaluations += 1
    res.distinct.add('get|%d|%s|%s|%s|%s' % (n, ''.join(str(o)[:2] for o in outcomes), in_file, two_contexts,
                                             switch_at is not None))
    calls = []

    class GetAE(applicationentity.ClientAE):
        def on_receive_store(self, context, ds):
            k = len(calls)
            calls.append(k)
            o = outcomes[k] if k < len(outcomes) else 0
            if k == switch_at:
                # the application reconfigures its entity while the retrieve is running: from now on
                # instances of one class are received into files
                self.add_scu(_file_storage(), [svc.MR])
            if o == 'raise':
                raise exceptions.EventHandlingError('cannot store')
            return statuses.Status(o, None) if r.random() < 0.5 else o

    with stubdul.stubbed() as Stub:
        ae = GetAE('GETSCU')
        storage = sopclass.storage_scp if in_file else _memory_storage()
        ae.add_scu(sopclass.qr_get_scu)
        # storage contexts: the C-STORE requests arrive on these
        ae.add_scu(storage, [svc.CT, svc.MR])
        if two_contexts:
            # the same class proposed a second time (another service of the application): requests
            # for it may arrive on either context
            ae.add_scu(_file_storage() if in_file else _memory_storage(), [svc.CT])
            res.count('sim.get-class-on-two-contexts')
        ctxs_of = {}
        for cid, c in sorted(ae.context_def_list.items()):
            ctxs_of.setdefault(str(c.sop_class), []).append(cid)
        assoc = asceprovider.Association(ae, None, 16384)
        stub = Stub.instances[0]
        script = []
        sent_stores = []
        for k in range(n):
            while r.random() < 0.35:
                script.append(('pending', k))
            sop = r.choice([svc.CT, svc.MR])
            inst = '1.2.826.99.%d.%d' % (i, k)
            ds = pydicom.Dataset()
            ds.SOPClassUID = sop
            ds.SOPInstanceUID = inst
            ds.PatientName = 'GET^%d^%d' % (i, k)
            mid = r.choice([0, 1, k, 0xFFFF, r.randrange(65536)])
            on_ctx = r.choice(ctxs_of[sop])
            to_file = in_file or (switch_at is not None and k > switch_at and sop == svc.MR)
            script.append(('store', (sop, inst, mid, dsutils.encode(ds, True, True), on_ctx, to_file)))
            sent_stores.append((on_ctx, mid, sop, inst))
        # progress reported after the last sub-operation (remaining 0) still is not the final response
        while r.random() < 0.4:
            script.append(('pending', n))
        final_status = r.choice([0x0000, 0xB000, 0xA702, 0xFE00])
        script.append(('final', final_status))
        script.append(('after-final', None))      # must never be consumed
        for kind, arg in script:
            if kind == 'pending':
                stub.script.append((svc.request_message('CGetRSPMessage', {
                    R.TAG_AFFECTED_SOP_CLASS: svc.GET, R.TAG_COMMAND_FIELD: 0x8010,
                    R.TAG_MESSAGE_ID_RSP: get_id, R.TAG_STATUS: 0xFF00, R.TAG_REMAINING: n - arg,
                    R.TAG_COMPLETED: arg, R.TAG_FAILED: 0, R.TAG_WARNING: 0}), get_ctx))
                if arg == n:
                    res.count('sim.progress-after-last-suboperation')
            elif kind == 'store':
                sop, inst, mid, data, on_ctx, to_file = arg
                rq = svc.request_message('CStoreRQMessage', {
                    R.TAG_AFFECTED_SOP_CLASS: sop, R.TAG_COMMAND_FIELD: 0x0001, R.TAG_MESSAGE_ID: mid,
                    R.TAG_PRIORITY: 0, R.TAG_AFFECTED_SOP_INSTANCE: inst}, data)
                if to_file:
                    import tempfile
                    fp = tempfile.TemporaryFile()
                    # (the entity's get_file() may return a start position other than 0: a record
                    # header of the application's own precedes the data set)
                    fp.write(b'\xff' * file_start + data)
                    fp.seek(file_start)
                    rq.data_set = fp
                stub.script.append((rq, on_ctx))
            elif kind == 'final':
                stub.script.append((svc.request_message('CGetRSPMessage', {
                    R.TAG_AFFECTED_SOP_CLASS: svc.GET, R.TAG_COMMAND_FIELD: 0x8010,
                    R.TAG_MESSAGE_ID_RSP: get_id, R.TAG_STATUS: arg, R.TAG_COMPLETED: n,
                    R.TAG_FAILED: 0, R.TAG_WARNING: 0}), get_ctx))
            else:
                stub.script.append((svc.request_message('CGetRSPMessage', {
                    R.TAG_AFFECTED_SOP_CLASS: svc.GET, R.TAG_COMMAND_FIELD: 0x8010,
                    R.TAG_MESSAGE_ID_RSP: get_id, R.TAG_STATUS: 0xFF00}), get_ctx))
        q = pydicom.Dataset()
        q.PatientID = 'P%d' % i
        yielded = []
        error = None
        try:
            for ctx, item in sopclass.qr_get_scu(assoc, svc.context(get_ctx, svc.GET), q, get_id):
                if hasattr(item, 'read'):
                    try:
                        pos = item.tell()
                        d = dsutils.decode(item.read(), True, True)      # from where the file is handed over
                        item.seek(pos)
                    except Exception as exc:
                        d = None
                else:
                    d = item
                yielded.append(str(getattr(d, 'SOPInstanceUID', None)))
        except Exception as exc:
            error = exc
        leftover = len(stub.script)
        messages = svc.sent(stub)
    where = 'C-GET n=%d outcomes=%s file=%s' % (n, outcomes[:8], in_file)
    res.sample({'case': case, 'n': n, 'outcomes': [str(o) for o in outcomes[:10]],
                'yielded': yielded[:5], 'sent': len(messages)}, limit=4)
    if error is not None:
        res.violation('get-user-raises', 'C19.get', '%s: %s: %s' % (where, type(error).__name__, error), case)
        return
    res.count('oracle.get-exactly-once')
    rq = [m for m in messages if m['command'].get(R.TAG_COMMAND_FIELD) == 0x0010]
    rsps = [m for m in messages if m['command'].get(R.TAG_COMMAND_FIELD) == 0x8001]
    others = [m for m in messages if m['command'].get(R.TAG_COMMAND_FIELD) not in (0x0010, 0x8001)]
    if len(rq) != 1 or others:
        res.violation('get-unexpected-messages', 'C19.get', '%s: sent %d C-GET-RQ and %d other messages' % (
            where, len(rq), len(others)), case)
    got = [(m['ctx'], m['command'].get(R.TAG_MESSAGE_ID_RSP), m['command'].get(R.TAG_AFFECTED_SOP_CLASS),
            m['command'].get(R.TAG_AFFECTED_SOP_INSTANCE)) for m in rsps]
    if got != sent_stores:
        key = 'get-store-answered-zero-or-several-times' if len(got) != len(sent_stores) else \
            'get-store-response-mismatch'
        bad = next((k for k, (a, b) in enumerate(zip(got, sent_stores)) if a != b),
                   min(len(got), len(sent_stores)))
        res.violation(key, 'C19.get', '%s: %d C-STORE requests, %d responses; first difference at #%d: '
                      'sent %r, request %r' % (where, len(sent_stores), len(got), bad,
                                               got[bad] if bad < len(got) else None,
                                               sent_stores[bad] if bad < len(sent_stores) else None), case)
    for k, m in enumerate(rsps):
        if k < len(outcomes):
            want = 0xC000 if outcomes[k] == 'raise' else outcomes[k]
            if m['command'].get(R.TAG_STATUS) != want:
                res.violation('get-store-status', 'C19.get', '%s: response %d status %r, handler %r' % (
                    where, k, m['command'].get(R.TAG_STATUS), outcomes[k]), case)
                break
    res.count('oracle.get-yield-order')
    want_yield = [inst for (c, mid, sop, inst), o in zip(sent_stores, outcomes) if o != 'raise']
    if yielded != want_yield:
        res.violation('get-yield-sequence', 'C19.get', '%s: yielded %r..., received %r...' % (
            where, yielded[:6], want_yield[:6]), case)
    if leftover != 1:
        key = 'get-continues-after-final' if leftover < 1 else 'get-stops-before-final'
        res.violation(key, 'C19.get', '%s: %d scripted items left after iteration (1 expected)' % (
            where, leftover), case)


def _memory_storage():
    def storage(asce, ctx, msg):
        pass
    storage.sop_classes = []
    return storage


def _file_storage():
    def storage(asce, ctx, msg):
        pass
    storage.sop_classes = []
    storage.store_in_file = True
    return storage


# --------------------------------------------------------------------------
# C-MOVE provider
# --------------------------------------------------------------------------
def move_case(res, case):
    from pynetdicom2 import applicationentity, asceprovider, exceptions, sopclass, statuses, dsutils
    import pydicom
    i, seed = case['index'], case['seed']
    r = rng(seed, 'c19-move', i)
    n = count_for(r, i)
    known = n > 0 or r.random() < 0.5
    outcomes = [r.choice([0x0000, 0x0000, 0x0000, 0xB000, 0xB007, 0xA700, 0xC000]) for _ in range(n)]
    msg_id = r.choice([0, 1, 0x7FFF, 0xFFFF, r.randrange(65536)])
    pc_id = r.choice([1, 3, 9, 255])
    dest_title = 'DEST%d' % (i % 7)
    res.evaluations += 1
    res.distinct.add('move|%d|%s|%s' % (n, ''.join('%X' % (o >> 12) for o in outcomes), known))
    instances = ['1.2.826.77.%d.%d' % (i, k) for k in range(n)]
    asked = []

    class MoveAE(applicationentity.AE):
        def on_receive_move(self, context, ds, destination):
            asked.append(str(destination))
            if not known:
                return None, 0, iter([])

            def gen():
                for k in range(n):
                    if fault == 'generator-gives-up' and k == give_up_at:
                        raise exceptions.EventHandlingError('the archive went away')
                    d = pydicom.Dataset()
                    d.SOPClassUID = svc.CT if k % 3 else svc.MR
                    d.SOPInstanceUID = instances[k]
                    d.PatientName = 'MOVE^%d^%d' % (i, k)
                    yield d
            supply = gen()
            if supply_form == 'iterator':
                # an iterator that is not a generator (no close(), no throw()): the base class's own
                # default returns one, and so may the application
                class Supply(object):
                    def __iter__(self):
                        return self

                    def __next__(self):
                        return next(supply)
                    next = __next__
                source = Supply()
            elif supply_form == 'list-iterator' and fault != 'generator-gives-up':
                source = iter(list(supply))
            else:
                source = supply
            return ({'aet': dest_title, 'address': 'dest%d.example' % (i % 7), 'port': 1000 + i % 7}, n,
                    source)

    # faults of the sub-association: the destination refuses it, or never confirms its release
    # ... accepts it without the context of one instance's class, stops answering in the middle;
    # or the application's own instance generator gives up half-way
    fault = r.choice([None] * 6 + ['refuse', 'silent-release', 'silent-store', 'class-not-accepted',
                                   'generator-gives-up', 'destination-releases']) if n else None
    give_up_at = r.randrange(n) if n else 0
    supply_form = rng(seed, 'c19-move-supply', i).choice(['generator', 'iterator', 'list-iterator'])
    res.count('sim.move-supply-' + supply_form)
    peer = svc.CooperativePeer(list(outcomes), refuse=(fault == 'refuse'),
                               silent_on_release=(fault == 'silent-release'),
                               refuse_classes=[svc.MR] if fault == 'class-not-accepted' else (),
                               silent_on_store=give_up_at if fault == 'silent-store' else None,
                               release_on_store=give_up_at if fault == 'destination-releases' else None)
    case = dict(case, fault=fault)
    res.distinct.add('move-fault|%s|%d' % (fault, min(n, 3)))
    with stubdul.stubbed() as Stub:
        ae = MoveAE('MOVESCP', 0, bind_and_activate=False)
        try:
            ae.add_scp(sopclass.qr_move_scp)
            ae.add_scu(sopclass.storage_scu, [svc.CT, svc.MR])
            assoc = asceprovider.Association(ae, None, 16384)
            primary = Stub.instances[0]
            Stub.preload_on_empty = peer
            q = pydicom.Dataset()
            q.PatientID = 'P%d' % i
            rq = svc.request_message('CMoveRQMessage', {
                R.TAG_AFFECTED_SOP_CLASS: svc.MOVE, R.TAG_COMMAND_FIELD: 0x0021, R.TAG_MESSAGE_ID: msg_id,
                R.TAG_PRIORITY: 0, R.TAG_MOVE_DESTINATION: dest_title}, dsutils.encode(q, True, True))
            error = None
            try:
                sopclass.qr_move_scp(assoc, svc.context(pc_id, svc.MOVE), rq)
            except Exception as exc:
                error = exc
            responses = svc.sent(primary)
            subs = Stub.instances[1:]
            sub_trees = [getattr(s, 'request_tree', None) for s in subs]
            sub_addr = [getattr(p, 'called_presentation_address', None)
                        for s in subs for p in s.sent_pdus() if getattr(p, 'pdu_type', None) == 1]
        finally:
            ae.server_close()
    where = 'C-MOVE total=%d outcomes=%s known=%s' % (n, ['%04X' % o for o in outcomes[:8]], known)
    res.sample({'case': case, 'total': n, 'responses': [
        (m['command'].get(R.TAG_STATUS), m['command'].get(R.TAG_REMAINING),
         m['command'].get(R.TAG_COMPLETED), m['command'].get(R.TAG_FAILED),
         m['command'].get(R.TAG_WARNING)) for m in responses[:6]]}, limit=4)
    if fault:
        # whatever becomes of the sub-association, the retrieve concludes with one final response
        res.count('oracle.move-subassociation-fault')
        where += ' fault=' + fault
        statuses_seen = [m['command'].get(R.TAG_STATUS) for m in responses]
        finals = [s for s in statuses_seen if s not in (0xFF00, 0xFF01)]
        if len(finals) != 1 or statuses_seen[-1:] != finals:
            res.violation('move-final-response-count:sub-association-' + fault, 'C19.move',
                          '%s: statuses %r (provider error: %s)' % (
                              where, ['%04X' % (s or 0) for s in statuses_seen],
                              '%s: %s' % (type(error).__name__, error) if error else None), case)
        if fault == 'refuse' and finals and finals[0] == 0 and n:
            res.violation('move-success-without-suboperations', 'C19.move',
                          '%s: final status Success although no sub-operation could be performed' % where,
                          case)
        # what the final response says was performed is what was performed
        performed = len([s for s in peer.stores if not s.get('unanswered')])
        if finals and fault != 'silent-release':
            cmd = responses[-1]['command']
            counts = [cmd.get(t) for t in (R.TAG_COMPLETED, R.TAG_FAILED, R.TAG_WARNING)]
            # (either convention: "completed" counts every performed sub-operation, or only the
            # successful ones beside failed and warning)
            if any(c is not None for c in counts) and performed not in (counts[0] or 0,
                                                                         sum(c or 0 for c in counts)):
                res.violation('move-final-counters-take-back-progress', 'C19.move',
                              '%s: %d sub-operations were performed and answered, the final response counts '
                              'completed/failed/warning = %r' % (where, performed, counts), case)
        if fault != 'silent-release':
            return
        error = None
    if error is not None:
        res.violation('move-provider-raises', 'C19.move', '%s: %s: %s (after %d responses)' % (
            where, type(error).__name__, error, len(responses)), case)
        return
    # ---- sub-operations: exactly once, in order, to the designated destination
    res.count('oracle.move-exactly-once')
    stored = [s['command'].get(R.TAG_AFFECTED_SOP_INSTANCE) for s in peer.stores]
    if stored != instances:
        key = 'move-instance-stored-zero-or-several-times' if sorted(stored) != sorted(instances) \
            else 'move-instances-out-of-order'
        res.violation(key, 'C19.move', '%s: stored %r..., supplied %r...' % (
            where, stored[:6], instances[:6]), case)
    if n:
        titles = [t['called'].strip(b' \0').decode() for t in sub_trees if t]
        if len(subs) != 1 or titles != [dest_title] or sub_addr != [('dest%d.example' % (i % 7),
                                                                      1000 + i % 7)]:
            res.violation('move-wrong-destination', 'C19.move', '%s: %d sub-associations to %r at %r, '
                          'designated %s' % (where, len(subs), titles, sub_addr, dest_title), case)
    elif subs:
        res.violation('move-association-without-instances', 'C19.move',
                      '%s: nothing to move but %d sub-association(s) requested' % (where, len(subs)), case)
    # ---- responses: progress and exactly one final
    res.count('oracle.move-one-final')
    statuses_seen = [m['command'].get(R.TAG_STATUS) for m in responses]
    finals = [k for k, s in enumerate(statuses_seen) if s not in (0xFF00, 0xFF01)]
    if len(finals) != 1 or finals[0] != len(responses) - 1:
        res.violation('move-final-response-count', 'C19.move', '%s: statuses %r: %d final responses' % (
            where, ['%04X' % (s or 0) for s in statuses_seen], len(finals)), case)
    res.count('oracle.move-progress')
    pend = [m for m, s in zip(responses, statuses_seen) if s in (0xFF00, 0xFF01)]
    if len(pend) > n:
        res.violation('move-more-progress-than-suboperations', 'C19.move', '%s: %d pending responses' % (
            where, len(pend)), case)
    for k, m in enumerate(pend, start=1):
        cmd = m['command']
        remaining, completed = cmd.get(R.TAG_REMAINING), cmd.get(R.TAG_COMPLETED)
        failed, warning = cmd.get(R.TAG_FAILED) or 0, cmd.get(R.TAG_WARNING) or 0
        performed_ok = completed == k or (completed is not None and completed + failed + warning == k)
        if remaining != n - k or not performed_ok:
            res.violation('move-progress-counters', 'C19.move',
                          '%s: after sub-operation %d of %d: remaining=%r completed=%r failed=%r warning=%r' % (
                              where, k, n, remaining, completed, failed, warning), case)
            break
        nf = sum(1 for o in outcomes[:k] if _cls(o) == 'F')
        nw = sum(1 for o in outcomes[:k] if _cls(o) == 'W')
        if failed != nf or warning != nw:
            res.violation('move-failure-warning-counters', 'C19.move',
                          '%s: after sub-operation %d: failed=%r warning=%r, outcomes say %d/%d' % (
                              where, k, failed, warning, nf, nw), case)
            break
    for m in responses:
        cmd = m['command']
        if m['ctx'] != pc_id or cmd.get(R.TAG_MESSAGE_ID_RSP) != msg_id or \
                cmd.get(R.TAG_COMMAND_FIELD) != 0x8021:
            res.violation('move-response-correlation', 'C19.move', '%s: response on ctx %r id %r field %r' % (
                where, m['ctx'], cmd.get(R.TAG_MESSAGE_ID_RSP), cmd.get(R.TAG_COMMAND_FIELD)), case)
            break


def _cls(code):
    if code == 0:
        return 'S'
    if code in (0xB000, 0xB006, 0xB007):
        return 'W'
    return 'F'


# --------------------------------------------------------------------------
# full-stack sample over loopback TCP (real threads): the same checkers
# --------------------------------------------------------------------------
def tcp_case(res, case, attempt=0):
    import time as _time
    t0 = _time.monotonic()
    from pynetdicom2 import applicationentity, exceptions, sopclass, statuses, dsutils
    import pydicom
    import threading
    from . import tcpnet
    i, seed = case['index'], case['seed']
    r = rng(seed, 'c19-tcp', i)
    n = r.choice([0, 1, 2, 3, 5, 8])
    op = 'move' if i % 2 == 0 else 'get'
    outcomes = [r.choice([0x0000, 0x0000, 0xB000, 0xA700]) for _ in range(n)]
    jitter = r.choice([0.0, 0.002, 0.004]) if not attempt else 0.0
    net = tcpnet.Net(seed=seed * 77 + i, jitter=jitter)
    res.evaluations += 1 if not attempt else 0
    res.distinct.add('tcp|%s|%d|%s' % (op, n, ''.join('%X' % (o >> 12) for o in outcomes)))
    where = 'TCP %s n=%d outcomes=%s jitter=%s' % (op, n, ['%04X' % o for o in outcomes], jitter)
    instances = ['1.2.826.19.%d.%d' % (i, k) for k in range(n)]
    lock = threading.Lock()
    stored = []
    error = None
    progress = []
    yielded = []
    answers = []

    def ds_for(k):
        d = pydicom.Dataset()
        d.SOPClassUID = svc.CT
        d.SOPInstanceUID = instances[k]
        d.PatientName = 'RETRIEVE^%d^%d' % (i, k)
        d.ImageComments = 'y' * r.choice([10, 2000])
        return d

    with tcpnet.instrument(net):
        try:
            if op == 'move':
                class Dest(tcpnet.TapServerMixin, applicationentity.AE):
                    def on_receive_store(self, context, ds):
                        d = pydicom.dcmread(ds)
                        with lock:
                            k = len(stored)
                            stored.append(str(d.SOPInstanceUID))
                        return statuses.Status(outcomes[k] if k < len(outcomes) else 0,
                                               sopclass.dimsemessages.CStoreRSPMessage)
                dest = Dest('DEST', 0, max_pdu_length=r.choice([256, 16384]))
                dest.net = net
                dest.timeout = 8
                dest.add_scp(sopclass.storage_scp)

                class Mover(tcpnet.TapServerMixin, applicationentity.AE):
                    def on_receive_move(self, context, ds, destination):
                        def gen():
                            for k in range(n):
                                yield ds_for(k)
                        return ({'aet': 'DEST', 'address': '127.0.0.1', 'port': dest.port}, n, gen())
                mover = Mover('MOVER', 0, supported_ts=['1.2.840.10008.1.2'])
                mover.net = net
                mover.timeout = 8
                mover.add_scp(sopclass.qr_move_scp)
                mover.add_scu(sopclass.storage_scu, [svc.CT])
                with tcpnet.serving(dest), tcpnet.serving(mover):
                    client = applicationentity.ClientAE('MOVESCU', supported_ts=['1.2.840.10008.1.2'])
                    client.timeout = 8
                    client.add_scu(sopclass.qr_move_scu)
                    q = pydicom.Dataset()
                    q.PatientID = 'P%d' % i
                    q.QueryRetrieveLevel = 'PATIENT'
                    with client.request_association({'aet': 'MOVER', 'address': '127.0.0.1',
                                                     'port': mover.port}) as assoc:
                        for st, rsp in assoc.get_scu(svc.MOVE)(q, 'DEST', 3):
                            progress.append((int(st), rsp.num_of_remaining_sub_ops,
                                             rsp.num_of_completed_sub_ops, rsp.num_of_failed_sub_ops,
                                             rsp.num_of_warning_sub_ops))
                    errs = list(getattr(mover, 'handler_errors', [])) + list(getattr(dest, 'handler_errors', []))
                    if errs:
                        error = errs[0]
            else:
                from . import refcodec as RC

                def handler(peer):
                    peer.accept(max_len=16384)
                    ctx, cmd, data, lengths, problems = peer.recv_dimse()
                    store_ctx = [c for c, (a, t) in peer.contexts.items() if a == svc.CT][0]
                    for k in range(n):
                        if r.random() < 0.4:
                            peer.send_dimse(ctx, {RC.TAG_AFFECTED_SOP_CLASS: svc.GET, RC.TAG_COMMAND_FIELD: 0x8010,
                                                  RC.TAG_MESSAGE_ID_RSP: cmd[RC.TAG_MESSAGE_ID],
                                                  RC.TAG_STATUS: 0xFF00, RC.TAG_REMAINING: n - k,
                                                  RC.TAG_COMPLETED: k, RC.TAG_FAILED: 0, RC.TAG_WARNING: 0})
                        peer.send_dimse(store_ctx, {RC.TAG_AFFECTED_SOP_CLASS: svc.CT,
                                                    RC.TAG_COMMAND_FIELD: 0x0001, RC.TAG_MESSAGE_ID: 100 + k,
                                                    RC.TAG_PRIORITY: 0,
                                                    RC.TAG_AFFECTED_SOP_INSTANCE: instances[k]},
                                        dsutils.encode(ds_for(k), True, True))
                        item = peer.recv_dimse()
                        if isinstance(item, dict):
                            raise AssertionError('expected a C-STORE-RSP, got %r' % item)
                        answers.append((item[0], item[1].get(RC.TAG_MESSAGE_ID_RSP),
                                        item[1].get(RC.TAG_AFFECTED_SOP_INSTANCE), item[1].get(RC.TAG_STATUS),
                                        item[1].get(RC.TAG_COMMAND_FIELD)))
                    peer.send_dimse(ctx, {RC.TAG_AFFECTED_SOP_CLASS: svc.GET, RC.TAG_COMMAND_FIELD: 0x8010,
                                          RC.TAG_MESSAGE_ID_RSP: cmd[RC.TAG_MESSAGE_ID], RC.TAG_STATUS: 0,
                                          RC.TAG_COMPLETED: n, RC.TAG_FAILED: 0, RC.TAG_WARNING: 0})
                    nxt = peer.recv_pdu()
                    if nxt['type'] == 5:
                        peer.send_pdu({'type': 6})
                    return store_ctx
                srv = tcpnet.PeerServer(handler, timeout=8.0)
                try:
                    calls = []

                    class GetAE(applicationentity.ClientAE):
                        def on_receive_store(self, context, ds):
                            k = len(calls)
                            calls.append(k)
                            return statuses.Status(outcomes[k] if k < len(outcomes) else 0, None)
                    client = GetAE('GETSCU', supported_ts=['1.2.840.10008.1.2'])
                    client.timeout = 8
                    client.add_scu(sopclass.qr_get_scu)
                    client.add_scu(_memory_storage(), [svc.CT])
                    q = pydicom.Dataset()
                    q.PatientID = 'P%d' % i
                    with client.request_association({'aet': 'GETSCP', 'address': '127.0.0.1',
                                                     'port': srv.port}) as assoc:
                        for ctx, d in assoc.get_scu(svc.GET)(q, 9):
                            yielded.append(str(d.SOPInstanceUID))
                finally:
                    srv.close()
                if srv.errors:
                    error = AssertionError(srv.errors[0])
                store_ctx = srv.results[0] if srv.results else None
        except Exception as exc:
            error = exc
    tcpnet.wait_quiet(0, 3.0)
    res.notes['interleaving_signatures'] = [net.signature()]
    if error is not None and attempt < 2 and (tcpnet.is_timeout(error) or _time.monotonic() - t0 >= 4.0):
        # (one side's 5 s time-out reaches the other as an abort: a failure that took that long is re-run
        # alone before it counts)
        res.count('flaky-timeouts')
        return tcp_case(res, case, attempt + 1)
    res.count('oracle.tcp-sample')
    if error is not None:
        res.violation('retrieve-raises:' + type(error).__name__, 'C19.tcp', '%s: %s: %s' % (
            where, type(error).__name__, error), case)
        return
    if op == 'move':
        if stored != instances:
            res.violation('move-instance-stored-zero-or-several-times' if sorted(stored) != sorted(instances)
                          else 'move-instances-out-of-order', 'C19.tcp',
                          '%s: destination received %r' % (where, [s[-4:] for s in stored]), case)
        finals = [p for p in progress if p[0] not in (0xFF00, 0xFF01)]
        if len(finals) != 1 or (progress and progress[-1][0] in (0xFF00, 0xFF01)):
            res.violation('move-final-response-count', 'C19.tcp', '%s: responses %r' % (where, progress), case)
        pend = [p for p in progress if p[0] in (0xFF00, 0xFF01)]
        for k, (st, remaining, completed, failed, warning) in enumerate(pend, start=1):
            ok = completed == k or (completed is not None and completed + (failed or 0) + (warning or 0) == k)
            if remaining != n - k or not ok:
                res.violation('move-progress-counters', 'C19.tcp',
                              '%s: progress response %d of %d: remaining=%r completed=%r failed=%r warning=%r'
                              % (where, k, n, remaining, completed, failed, warning), case)
                break
        if len(pend) != n:
            res.violation('move-progress-count', 'C19.tcp', '%s: %d progress responses for %d '
                          'sub-operations' % (where, len(pend), n), case)
    else:
        want = [(store_ctx, 100 + k, instances[k], outcomes[k], 0x8001) for k in range(n)]
        if answers != want:
            res.violation('get-store-response-mismatch', 'C19.tcp', '%s: C-STORE responses %r, expected %r' % (
                where, answers[:4], want[:4]), case)
        if yielded != instances:
            res.violation('get-yield-sequence', 'C19.tcp', '%s: yielded %r' % (where, [y[-4:] for y in yielded]),
                          case)
