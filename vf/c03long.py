"""C03 - a long stream.

Several MiB of P-DATA-TF PDUs on one association (one big C-STORE, then an echo
and the release), delivered in segments whose size has nothing to do with the
PDU size, so that for MiB on end no segment ends on a PDU boundary.  Receive
buffers that are compacted / trimmed / re-based only now and then show here and
nowhere in the short conversations.  Baseline: one PDU per segment.
"""
from __future__ import annotations

import hashlib

from . import fixtures as F, refcodec as R, simnet

SEGMENTS = {'quick': [9973, 65521, 65536, 1048583, 4099, 'header+1', 'header+3', 'header+5', 'tail-65536'],
            'thorough': [9973, 65521, 65536, 131072, 1048583, 4099, 250007, 16383, 16390, 997, 'header+1', 'header+2',
                         'header+3', 'header+4', 'header+5', 'tail-65536', 'tail-131072', 'tail-65535']}
SIZE = {'quick': 5 * 1024 * 1024 + 17, 'thorough': 24 * 1024 * 1024 + 5}


def _digest(sim):
    out = []
    for item in sim.indication_objs:
        if isinstance(item, tuple):
            msg = item[0]
            data = msg.data_set
            if hasattr(data, 'read'):
                data.seek(0)
                data = data.read()
            out.append((type(msg).__name__, item[1], getattr(msg, 'message_id', None),
                        hashlib.sha256(data or b'').hexdigest() if data else None))
        else:
            out.append(simnet.describe_indication(item))
    return out


def run(res, tier, seed, replay_case=None):
    rq = R.build_pdu(F.assoc_rq_tree(contexts=((1, F.VERIFICATION, (F.IMPLICIT,)),
                                               (3, F.CT_STORAGE, (F.IMPLICIT,)))))
    data = bytes((i * 131 + (i >> 11)) % 251 for i in range(SIZE[tier]))
    pdvs = R.fragment(F.store_rq_command(9, instance=b'1.2.3.9'), data, 16384, 3)
    store = [R.build_pdu(t) for t in R.group_pdvs(pdvs, [1] * len(pdvs))]
    tail = [F.PEER['pDATA'], F.PEER['pRELRQ']]
    blob = b''.join(store + tail)

    def script_for(seg):
        script = [('bytes', rq), ('user', F.user_primitive('uAC')[0])]
        if seg is None:
            script += [('bytes', p) for p in store + tail]
        elif isinstance(seg, str) and seg.startswith('tail-'):
            # the last segment before the peer falls silent (it waits for our reply) is exactly one
            # read buffer long
            n = int(seg.split('-')[1])
            head = len(blob) - n
            script += [('bytes', blob[k:min(k + 1000003, head)]) for k in range(0, head, 1000003)]
            script += [('bytes', blob[head:])]
        elif isinstance(seg, str):
            # every segment ends d bytes into the header of a PDU (groups of 1..40 PDUs per segment)
            d = int(seg.split('+')[1])
            bounds, pos = [], 0
            for p in store + tail:
                pos += len(p)
                bounds.append(pos)
            cuts, k = [], 0
            while k < len(bounds) - 1:
                k += 1 + (k * 7) % 40
                if k < len(bounds) - 1:
                    cuts.append(bounds[k] + d)
            script += [('bytes', blob[a:b]) for a, b in zip([0] + cuts, cuts + [len(blob)])]
        else:
            script += [('bytes', blob[k:k + seg]) for k in range(0, len(blob), seg)]
        script += [('user', F.user_primitive('uRELRP')[0]), ('close',)]
        return script

    def observe(seg):
        sim = simnet.Sim('acceptor', script_for(seg), max_pdu_length=65536)
        sim.run()
        return {'outcome': sim.outcome, 'error': sim.error, 'indications': _digest(sim),
                'wire': b''.join(sim.wire_raw), 'state': sim.state(), 'closed': sim.all_closed()}

    if replay_case is None or replay_case.get('giant'):
        # the same kind of message as ONE P-DATA-TF PDU of 17 MiB, to an entity that sets no limit
        # (maximum length 0): whole, in read-buffer sized segments, in odd segments
        gdata = bytes((i * 137 + (i >> 13)) % 253 for i in range(17 * 1024 * 1024 + 3))
        gpdvs = R.fragment(F.store_rq_command(9, instance=b'1.2.3.9'), gdata, 1 << 30, 3)
        giant = R.build_pdu({'type': 4, 'rsv': 0, 'pdvs': gpdvs})
        want = [('CStoreRQMessage', 3, 9, hashlib.sha256(gdata).hexdigest())]
        for seg in (None, 65536, 1000003):
            gblob = giant + b''.join(tail)
            script = [('bytes', rq), ('user', F.user_primitive('uAC')[0])]
            script += [('bytes', giant), ('bytes', tail[0]), ('bytes', tail[1])] if seg is None else \
                [('bytes', gblob[k:k + seg]) for k in range(0, len(gblob), seg)]
            script += [('user', F.user_primitive('uRELRP')[0]), ('close',)]
            sim = simnet.Sim('acceptor', script, max_pdu_length=0, budget=2000)
            sim.run()
            got = _digest(sim)
            res.evaluations += 1
            res.distinct.add('giant|%d|%s' % (len(giant), seg))
            res.count('oracle.giant-pdu')
            if sim.outcome != 'end-of-script' or [g for g in got if isinstance(g, tuple) and
                                                 g[0] == 'CStoreRQMessage'] != want or len(got) != 4:
                res.violation('valid-pdu-not-delivered:giant-pdu', 'C03.differential',
                              'one P-DATA-TF PDU of %d bytes (no maximum length set) in segments of %s: outcome %s '
                              '%s, indications %r' % (len(giant), seg, sim.outcome, sim.error, got[:5]),
                              {'long': True, 'giant': True, 'segment': seg})
                break
        if replay_case is not None:
            return
    base = observe(None)
    if base['outcome'] != 'end-of-script' or len(base['indications']) != 4:
        res.violation('baseline-run-failed', 'C03.baseline', 'long stream, one PDU per segment: %s %s, %d '
                      'indications' % (base['outcome'], base['error'], len(base['indications'])),
                      {'long': True, 'segment': None})
        return
    for seg in SEGMENTS[tier]:
        if replay_case is not None and replay_case.get('segment') != seg:
            continue
        case = {'long': True, 'segment': seg}
        obs = observe(seg)
        res.evaluations += 1
        res.distinct.add('long|%d|%s' % (len(blob), seg))
        res.count('oracle.long-stream')
        for channel in ('outcome', 'indications', 'wire', 'state', 'closed'):
            if obs[channel] != base[channel]:
                a, b = obs[channel], base[channel]
                if channel == 'wire':
                    a, b = '%d bytes' % len(a), '%d bytes' % len(b)
                res.violation('segmentation-changes-%s:long-stream' % channel, 'C03.differential',
                              '%d bytes of PDUs in segments of %s: %s = %r, one PDU per segment gives %r%s' % (
                                  len(blob), seg, channel, a, b,
                                  (' error=%s' % obs['error']) if obs['error'] else ''), case)
                break
