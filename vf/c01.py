"""C01 - PDU encode/decode round trip for every PDU, item and sub-item.

Oracle: for every structured PDU value x built from the public classes,
decode(encode(x)) equals x attribute by attribute (recursively, lists in
order) and decode(b).encode() == b.  In addition every nested item / sub-item
is round-tripped on its own from a stream that carries sentinel bytes after
it: decode must consume exactly the item's bytes.
"""
from __future__ import annotations

import io

from . import gen, libmap, pducases
from .common import Result, chunked

LEVEL = 'exploration'
ENGINE = 'refcodec+gen'
TECHNIQUE = 'runtime round-trip oracle on the real encode()/decode() over enumerated and seeded random PDU structures'
LEVEL_TEXT = ('held on every generated structure: all 7 PDU types, every item/sub-item class, the full '
              'sub-item adjacency matrix, item-order permutations, field boundaries; a finite sample '
              'of an unbounded input space, hence exploration')
LEVEL_NOTE = 'trusts only the comparison code in vf/libmap.py; values outside the generators alphabets are not explored'
RULE = ('cases = exhaustive enumerations (user-information sub-item adjacency matrix 9x9 in two '
        'contexts + each kind last, variable-item adjacency/permutations, boundary values of every '
        'field, PDV sizes up to 70000) + seeded random PDU trees; a case is distinct by its '
        'structural signature (PDU type, item kinds in order, sub-item kinds in order, title '
        'lengths, PDV sizes) and non-trivial when it has at least one nested item or a non-default '
        'field')
ASSUMPTIONS = ['values are built through the public constructors of pdu.py/userdataitems.py',
               'text fields are ASCII, AE titles carry no leading/trailing space or NUL',
               'fixed-length sub-items keep their standard item_length (4)']
REQUIRED = ['oracle.roundtrip', 'oracle.reencode', 'oracle.item-stream', 'oracle.decode-is-pure']

N_RANDOM = {'quick': 4000, 'thorough': 1500000}
SHARDS = {'quick': 8, 'thorough': 16}


def exhaustive(tier):
    return False


def plan(tier, seed):
    specs = [{'name': 'enum', 'enums': ['adjacency', 'items', 'boundary']}]
    n = N_RANDOM[tier]
    for part in chunked(range(n), SHARDS[tier]):
        if part:
            specs.append({'name': 'random', 'lo': part[0], 'hi': part[-1] + 1})
    return specs


def run_shard(spec, tier, seed):
    res = Result()
    if spec['name'] == 'enum':
        for which in spec['enums']:
            for desc, tree in pducases.enum_cases(which, seed):
                check_case(res, desc, tree)
    else:
        for i in range(spec['lo'], spec['hi']):
            desc, tree = pducases.random_case(seed, i)
            check_case(res, desc, tree)
    return res


def replay(case):
    res = Result()
    check_case(res, case, pducases.regenerate(case))
    return res


def _nontrivial(tree):
    if tree['type'] in (1, 2):
        return bool(tree['items'])
    if tree['type'] == 4:
        return bool(tree['pdvs'])
    return any(v for k, v in tree.items() if k != 'type')


def check_case(res, desc, tree):
    res.evaluations += 1
    try:
        x = libmap.tree_to_lib(tree)
    except Exception as exc:
        res.count('skipped.unrepresentable')
        return
    cls = type(x)
    try:
        b = x.encode()
    except Exception as exc:
        res.violation('encode-raises', 'C01.encode', '%s.encode() raised %r' % (cls.__name__, exc),
                      desc)
        return
    if _nontrivial(tree):
        res.sig(pducases.features(tree))
    res.sample({'case': desc, 'tree': gen.jsonable(tree), 'encoded_len': len(b)}, limit=4)
    try:
        y = cls.decode(b)
    except Exception as exc:
        res.count('oracle.roundtrip')
        res.violation('decode-raises', 'C01.roundtrip',
                      '%s.decode(encode(x)) raised %r' % (cls.__name__, exc), desc)
        return
    res.count('oracle.roundtrip')
    diff = libmap.deep_equal(x, y)
    if diff:
        res.violation('roundtrip-differs', 'C01.roundtrip',
                      '%s: decode(encode(x)) != x: %s' % (cls.__name__, diff), desc)
    res.count('oracle.reencode')
    try:
        b2 = y.encode()
    except Exception as exc:
        res.violation('reencode-raises', 'C01.reencode', 'decode(b).encode() raised %r' % (exc,),
                      desc)
        b2 = b
    if b2 != b:
        res.violation('reencode-differs', 'C01.reencode',
                      '%s: decode(b).encode() != b (%d vs %d bytes, first difference at %d)' % (
                          cls.__name__, len(b2), len(b), _first_diff(b, b2)), desc)
    # nested items, each alone on a stream followed by sentinel bytes
    for path, obj in nested(x):
        item_stream_check(res, desc, path, obj)
    # decoding is a function of the bytes alone: what an application does to an object it got
    # from an earlier decode of the same bytes (the acceptor itself rewrites the maximum length of
    # a decoded request) must not show in a later decode
    res.count('oracle.decode-is-pure')
    try:
        scribble(y)
        y2 = cls.decode(b)
        diff = libmap.deep_equal(x, y2)
    except Exception as exc:
        diff = 'raised %r' % (exc,)
    if not diff:
        # ... nor may the decoded object keep looking at the caller's receive buffer
        buf = bytearray(b)
        try:
            y3 = cls.decode(memoryview(buf))
        except Exception:
            y3 = None                    # bytes-like input other than bytes is not promised
        if y3 is not None:
            res.count('oracle.decode-copies-its-input')
            for k in range(len(buf)):
                buf[k] = 0xEE
            alias = libmap.deep_equal(x, y3)
            if alias:
                res.violation('decoded-object-aliases-the-input-buffer', 'C01.roundtrip',
                              '%s decoded from a buffer changes when the buffer is re-used: %s' % (
                                  cls.__name__, alias), desc)
    if diff:
        res.violation('decode-depends-on-earlier-decodes', 'C01.roundtrip',
                      '%s: second decode of the same bytes, after the first result was modified, '
                      'differs from x: %s' % (cls.__name__, diff), desc)


def scribble(obj, depth=0):
    """Change every field of a decoded PDU object in place (recursively)."""
    if depth > 6 or obj is None:
        return
    for name, value in list(vars(obj).items()) if hasattr(obj, '__dict__') else []:
        if isinstance(value, bool):
            continue
        if isinstance(value, int):
            setattr(obj, name, (value + 1) % 200)
        elif isinstance(value, (bytes, bytearray)):
            setattr(obj, name, bytes(value) + b'~')
        elif isinstance(value, str):
            setattr(obj, name, value + '~')
        elif isinstance(value, list):
            for item in value:
                if hasattr(item, '__dict__'):
                    scribble(item, depth + 1)
            if value:
                value.append(value[-1])
        elif hasattr(value, '__dict__'):
            scribble(value, depth + 1)


SENTINEL = b'\x50\x51\x52\x53\x00\x10\x20\x21'


def nested(x):
    for attr in ('variable_items', 'data_value_items'):
        for i, item in enumerate(getattr(x, attr, []) or []):
            yield '%s[%d]' % (attr, i), item
            for j, sub in enumerate(getattr(item, 'user_data', []) or []
                                    if not isinstance(getattr(item, 'user_data', None), bytes)
                                    else []):
                yield '%s[%d].user_data[%d]' % (attr, i, j), sub
            if hasattr(item, 'abs_sub_item'):
                yield '%s[%d].abs_sub_item' % (attr, i), item.abs_sub_item
            for j, ts in enumerate(getattr(item, 'ts_sub_items', []) or []):
                yield '%s[%d].ts_sub_items[%d]' % (attr, i, j), ts
            if hasattr(item, 'ts_sub_item'):
                yield '%s[%d].ts_sub_item' % (attr, i), item.ts_sub_item


def item_stream_check(res, desc, path, obj):
    cls = type(obj)
    try:
        raw = obj.encode()
    except Exception as exc:
        res.violation('encode-raises', 'C01.item-stream',
                      '%s %s.encode() raised %r' % (path, cls.__name__, exc), desc)
        return
    stream = io.BytesIO(raw + SENTINEL)
    res.count('oracle.item-stream')
    try:
        back = cls.decode(stream)
    except Exception as exc:
        res.violation('decode-raises', 'C01.item-stream',
                      '%s %s.decode raised %r' % (path, cls.__name__, exc), desc)
        return
    # a presentation-context RQ item legitimately peeks one byte ahead and seeks back
    consumed = stream.tell()
    if consumed != len(raw):
        res.violation('item-consumes-wrong-length', 'C01.item-stream',
                      '%s %s.decode consumed %d bytes of a %d-byte item' % (
                          path, cls.__name__, consumed, len(raw)), desc)
        return
    diff = libmap.deep_equal(obj, back, path)
    if diff:
        res.violation('roundtrip-differs', 'C01.item-stream',
                      '%s: decode(encode(item)) != item: %s' % (cls.__name__, diff), desc)


def _first_diff(a, b):
    for i, (x, y) in enumerate(zip(a, b)):
        if x != y:
            return i
    return min(len(a), len(b))
