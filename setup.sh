#!/bin/bash
# Offline setup: optional third-party helpers beside the repository's interpreter.
# Nothing a verdict depends on: checks fall back to plain wrappers when absent.
cd "$(dirname "$0")"
mkdir -p .deps .work evidence
/venv/bin/pip install --quiet --no-index --find-links /opt/veriftools/wheels \
    --target .deps icontract jsonschema >/dev/null 2>&1 || echo "setup: optional deps not installed (continuing)"
exit 0
